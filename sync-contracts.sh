#!/bin/bash
# Copies the contract mirror into /repo (hook files, build tag verif) and commits them there.
set -e
cp /verif/contracts/contracts_verif_*.go /repo/
cd /repo
if [ -n "$(git status --porcelain -- 'contracts_verif_*.go')" ]; then
  git add contracts_verif_*.go
  git commit -qm "verif hook: ${1:-update contracts} (comment-only, build tag verif)"
  echo "hook commit $(git log --format=%h -1)"
fi
