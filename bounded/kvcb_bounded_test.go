package kvql

// Bounded differential checks (thorough tier of /verif; labelled "bounded" in the evidence, never
// counted as proved). They stand in for the parts no contract reaches yet: the batch projection and
// its final-result columns, the per-chunk alias cache across filter rounds, the rendering of
// aggregate rows. Bounds: stores of at most 40 pairs, batch sizes {1, 2, 3, 5, 7, 32}, the
// statement lists below.

import (
	"fmt"
	"strings"
	"testing"
)

var kvcbSizes = []int{1, 2, 3, 5, 7, 32}

func kvcbNumStore(n int) *kvcbStore {
	s := newKvcbStore()
	for i := 0; i < n; i++ {
		s.Put([]byte(fmt.Sprintf("k%02d", i)), []byte(fmt.Sprintf("%d", i*3)))
	}
	return s
}

// row-at-a-time and batch iteration agree (C03), statements with aliases, lists, IN, BETWEEN, limit
func TestKvcBoundedRowBatch(t *testing.T) {
	s := kvcbNumStore(20)
	for _, q := range []string{
		"select key, int(value) as n where n > 6 limit 2, 5",
		"select key, int(value) as n where n > 6 & key ^= 'k1' limit 3, 4",
		"select key, int(value) as n where n > 6 | n = 0 order by n desc limit 3",
		"select key, int(value) * 2 as n, n + 1 as m where n > 6 & m > 0 limit 1, 3",
		"select key, int(value) as n where key in ('k01','k05','k07','k09') & n > 3 limit 1,2",
		"select key, int(value) as n, n + 1 as m where n != 3",
		"select n + 1 as m, key, int(value) as n where n != 3",
		"select key, int(value) as n, n + 1 as m, m * 2 as o where n != 3 & m != 13",
		"select key, int(value) as n, join(',', n, n) as m where n != 3",
		"select key, int(value) as n where join(',', n, n) != '3,3'",
		"select key, int(value) as n, list(n, n)[1] as m where n != 3",
		"select key, split(value, ',') as l where key ^= 'k'",
		"select key, int_list(1, 2) as l where key ^= 'k'",
		"select key where key in split(value + ',k03', ',')",
		"select key, split(key + ',' + value, ',') as l where 'k05' in l",
		"select * where key between 'k05' and 'k05'",
		"select * where int(value) between 6 and 6",
		"select * where key ~= '^k0[1-3]$'",
		"select key where value between key + '0' and key + '5' | key + '1' in (key + '2', 'zz')",
		"select key, key + ':' + value as kv where key + value != ''",
		"select substr(key, 0, 2) as g, strlen(value) as n, sum(n) as s, group_concat(n, ',') as c where int(value) != 3 group by g, n",
		"select substr(value, 0, 1) as g, count(1) as c, sum(strlen(value)) as l, min(int(value)) as lo, max(int(value)) as hi, avg(int(value)) as a where key ^= 'k' group by g",
	} {
		kvcbCompare(t, q, s, kvcbSizes)
	}
}

// an alias is an abbreviation (C05): the query with the alias expanded returns the same rows
func TestKvcBoundedAliasExpansion(t *testing.T) {
	s := kvcbNumStore(20)
	type pair struct{ with, without string }
	for _, p := range []pair{
		{"select key, int(value) as n where n > 6 & n != 15", "select key, int(value) where int(value) > 6 & int(value) != 15"},
		{"select key, int(value) as n, n + 1 as m where m != 4", "select key, int(value), int(value) + 1 where int(value) + 1 != 4"},
		{"select key, upper(key) as u where u ^= 'K1' & int(value) > 30", "select key, upper(key) where upper(key) ^= 'K1' & int(value) > 30"},
		{"select key, int(value) as n where join(',', n, n) != '3,3'", "select key, int(value) where join(',', int(value), int(value)) != '3,3'"},
	} {
		saved := PlanBatchSize
		for _, bs := range kvcbSizes {
			PlanBatchSize = bs
			for mode := 0; mode < 2; mode++ {
				drain := kvcbDrainRows
				if mode == 1 {
					drain = kvcbDrainBatch
				}
				a, aerr := drain(t, p.with, s)
				b, berr := drain(t, p.without, s)
				if (aerr == nil) != (berr == nil) || fmt.Sprint(a) != fmt.Sprint(b) {
					t.Errorf("batch=%d mode=%d %q vs expansion:\n with   : %v %v\n without: %v %v", bs, mode, p.with, a, aerr, b, berr)
				}
			}
		}
		PlanBatchSize = saved
	}
}

// aliases whose names are prefixes of one another, over keys that start with the rest of the longer
// name: cache keys built from (alias, first key of the chunk) must not be confused
func TestKvcBoundedAliasNames(t *testing.T) {
	s := newKvcbStore()
	for _, k := range []string{"1a", "1b", "1c", "a", "b", "c", "v", "v1", "v1a"} {
		s.Put([]byte(k), []byte(k+k))
	}
	// (key != '1b' makes one scan batch run several filter rounds)
	with := "select key, strlen(value) as v, strlen(key) as v1 where v > 0 & v1 > 0 & v != v1 & key != '1b'"
	without := "select key, strlen(value), strlen(key) where strlen(value) > 0 & strlen(key) > 0 & strlen(value) != strlen(key) & key != '1b'"
	saved := PlanBatchSize
	defer func() { PlanBatchSize = saved }()
	for _, bs := range kvcbSizes {
		PlanBatchSize = bs
		a, aerr := kvcbDrainBatch(t, with, s)
		b, berr := kvcbDrainBatch(t, without, s)
		c, cerr := kvcbDrainRows(t, with, s)
		if aerr != nil || berr != nil || cerr != nil || fmt.Sprint(a) != fmt.Sprint(b) || fmt.Sprint(a) != fmt.Sprint(c) {
			t.Errorf("batch=%d:\n alias batch: %v %v\n expanded   : %v %v\n alias rows : %v %v", bs, a, aerr, b, berr, c, cerr)
		}
	}
}

// aggregates against their definitions (C09) on a store small enough to compute by hand
func TestKvcBoundedAggregates(t *testing.T) {
	s := newKvcbStore()
	s.Put([]byte("a1"), []byte("1.0000001"))
	s.Put([]byte("a2"), []byte("1.0000002"))
	s.Put([]byte("b1"), []byte("2.5"))
	s.Put([]byte("xa"), []byte("bc"))
	s.Put([]byte("xab"), []byte("c"))
	check := func(q string, want []string) {
		for mode := 0; mode < 2; mode++ {
			drain := kvcbDrainRows
			if mode == 1 {
				drain = kvcbDrainBatch
			}
			got, err := drain(t, q, s)
			if err != nil || strings.Join(got, ";") != strings.Join(want, ";") {
				t.Errorf("mode=%d %q:\n got  %v %v\n want %v", mode, q, got, err, want)
			}
		}
	}
	check("select float(value) as f, count(1) as c where key ^= 'a' | key ^= 'b' group by f",
		[]string{`["s:1.0000001" "int64:1"]`, `["s:1.0000002" "int64:1"]`, `["s:2.5" "int64:1"]`})
	check("select key, value, count(1) as c where key ^= 'x' group by key, value",
		[]string{`["s:xa" "s:bc" "int64:1"]`, `["s:xab" "s:c" "int64:1"]`})
	check("select substr(key, 0, 1) as g, strlen(value) as n, sum(n) as s, group_concat(n, ',') as c where key ^= 'a' | key ^= 'b' group by g, n",
		[]string{`["s:a" "s:9" "int64:18" "s:9,9"]`, `["s:b" "s:3" "int64:3" "s:3"]`})
}

// the expression rewrite preserves values (C04): every arithmetic tree of the shapes below over the
// leaves {int(value), float(value), 2, 3, 0.5}, evaluated before and after ExpressionOptimizer on
// pairs whose values keep float arithmetic exact
func TestKvcBoundedRewrite(t *testing.T) {
	leaves := []string{"int(value)", "float(value)", "2", "3", "0.5"}
	ops := []string{"+", "-", "*", "/"}
	var exprs []string
	for _, a := range leaves {
		for _, b := range leaves {
			for _, c := range leaves {
				if !(strings.Contains(a+b+c, "value")) {
					continue
				}
				for _, o1 := range ops {
					for _, o2 := range ops {
						exprs = append(exprs, "("+a+" "+o1+" "+b+") "+o2+" "+c, a+" "+o1+" ("+b+" "+o2+" "+c+")")
						for _, d := range []string{"2", "0.5", "int(value)"} {
							for _, o3 := range ops {
								exprs = append(exprs, "(("+a+" "+o1+" "+b+") "+o2+" "+c+") "+o3+" "+d, "("+a+" "+o1+" "+b+") "+o2+" ("+c+" "+o3+" "+d+")")
								exprs = append(exprs, "("+a+" "+o1+" ("+b+" "+o2+" "+c+")) "+o3+" "+d, a+" "+o1+" (("+b+" "+o2+" "+c+") "+o3+" "+d+")")
							}
						}
					}
				}
			}
		}
	}
	show := func(v any) string {
		if f, ok := v.(float64); ok && f == 0 {
			v = 0.0 // -0 and 0 are the same number
		}
		return fmt.Sprintf("%T:%v", v, v)
	}
	pairs := []KVPair{NewKVP([]byte("a"), []byte("0")), NewKVP([]byte("b"), []byte("1")), NewKVP([]byte("c"), []byte("7")), NewKVP([]byte("d"), []byte("-3")), NewKVP([]byte("e"), []byte("16"))}
	bad := 0
	exact := func(src string) bool {
		// keep float arithmetic exact (the property's domain): divide by 2 or 0.5 only
		for i := 0; i+2 < len(src); i++ {
			if src[i] == '/' && !strings.HasPrefix(src[i+2:], "2") && !strings.HasPrefix(src[i+2:], "0.5") {
				return false
			}
		}
		return true
	}
	for _, src := range exprs {
		if !exact(src) {
			continue
		}
		q := "select " + src + " where true = true"
		orig, _, err := BuildExecutor(q)
		if err != nil {
			continue // statically rejected (e.g. division by the literal zero)
		}
		again, _, _ := BuildExecutor(q)
		eo := ExpressionOptimizer{Root: again.Fields[0]}
		rewritten := eo.Optimize()
		for _, kv := range pairs {
			want, err := orig.Fields[0].Execute(kv, nil)
			if err != nil {
				continue
			}
			got, err := rewritten.Execute(kv, nil)
			if err != nil || show(got) != show(want) {
				bad++
				if bad <= 5 {
					t.Errorf("%q on value %s: original gives %s, rewritten %s gives %v %v", src, kv.Value, show(want), rewritten, got, err)
				}
			}
		}
	}
	if bad > 5 {
		t.Errorf("... %d mismatches in all (%d expressions)", bad, len(exprs))
	}
	t.Logf("%d expressions x %d pairs", len(exprs), len(pairs))
}

// TestKvcBoundedRewriteText: the same comparison for text: every `+` chain of up to four operands
// over text literals, key / value and text-valued calls, in all five parenthesisations, before and
// after the expression optimizer (concatenation does not commute: constants may only be merged
// with their neighbours).
func TestKvcBoundedRewriteText(t *testing.T) {
	leaves := []string{"'a'", "'b'", "key", "upper(value)", "str(int(value))", "lower(key)"}
	var exprs []string
	for _, a := range leaves {
		for _, b := range leaves {
			exprs = append(exprs, a+" + "+b)
			for _, c := range leaves {
				exprs = append(exprs, a+" + "+b+" + "+c, a+" + ("+b+" + "+c+")")
				for _, d := range leaves {
					exprs = append(exprs,
						"(("+a+" + "+b+") + "+c+") + "+d,
						"("+a+" + ("+b+" + "+c+")) + "+d,
						"("+a+" + "+b+") + ("+c+" + "+d+")",
						a+" + (("+b+" + "+c+") + "+d+")",
						a+" + ("+b+" + ("+c+" + "+d+"))")
				}
			}
		}
	}
	show := func(v any) string {
		switch b := v.(type) {
		case []byte:
			return "text:" + string(b)
		case string:
			return "text:" + b // (both representations of a text value occur)
		}
		return fmt.Sprintf("%T:%v", v, v)
	}
	pairs := []KVPair{NewKVP([]byte("k1"), []byte("7")), NewKVP([]byte(""), []byte("0")), NewKVP([]byte("Key"), []byte("-12"))}
	bad, n := 0, 0
	for _, src := range exprs {
		q := "select " + src + " where true = true"
		orig, _, err := BuildExecutor(q)
		if err != nil {
			continue
		}
		again, _, _ := BuildExecutor(q)
		eo := ExpressionOptimizer{Root: again.Fields[0]}
		rewritten := eo.Optimize()
		n++
		for _, kv := range pairs {
			want, err := orig.Fields[0].Execute(kv, nil)
			if err != nil {
				continue
			}
			got, err := rewritten.Execute(kv, nil)
			if err != nil || show(got) != show(want) {
				bad++
				if bad <= 5 {
					t.Errorf("%q on (%s, %s): original gives %s, rewritten %s gives %s %v", src, kv.Key, kv.Value, show(want), rewritten, show(got), err)
				}
			}
		}
	}
	if n < 5000 {
		t.Errorf("only %d expressions were accepted", n)
	}
	if bad > 5 {
		t.Errorf("... %d mismatches in all (%d expressions)", bad, n)
	}
	t.Logf("%d expressions x %d pairs", n, len(pairs))
}
