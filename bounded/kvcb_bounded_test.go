package kvql

// Bounded differential checks (thorough tier of /verif; labelled "bounded" in the evidence, never
// counted as proved). They stand in for the parts no contract reaches yet: the batch projection and
// its final-result columns, the per-chunk alias cache across filter rounds, the rendering of
// aggregate rows. Bounds: stores of at most 40 pairs, batch sizes {1, 2, 3, 5, 7, 32}, the
// statement lists below.

import (
	"fmt"
	"sort"
	"strconv"
	"strings"
	"testing"
)

var kvcbSizes = []int{1, 2, 3, 5, 7, 32}

func kvcbNumStore(n int) *kvcbStore {
	s := newKvcbStore()
	for i := 0; i < n; i++ {
		s.Put([]byte(fmt.Sprintf("k%02d", i)), []byte(fmt.Sprintf("%d", i*3)))
	}
	return s
}

// row-at-a-time and batch iteration agree (C03), statements with aliases, lists, IN, BETWEEN, limit
func TestKvcBoundedRowBatch(t *testing.T) {
	s := kvcbNumStore(20)
	for _, q := range []string{
		"select key, int(value) as n where n > 6 limit 2, 5",
		"select key, int(value) as n where n > 6 & key ^= 'k1' limit 3, 4",
		"select key, int(value) as n where n > 6 | n = 0 order by n desc limit 3",
		"select key, int(value) * 2 as n, n + 1 as m where n > 6 & m > 0 limit 1, 3",
		"select key, int(value) as n where key in ('k01','k05','k07','k09') & n > 3 limit 1,2",
		"select key, int(value) as n, n + 1 as m where n != 3",
		"select n + 1 as m, key, int(value) as n where n != 3",
		"select key, int(value) as n, n + 1 as m, m * 2 as o where n != 3 & m != 13",
		"select key, int(value) as n, join(',', n, n) as m where n != 3",
		"select key, int(value) as n where join(',', n, n) != '3,3'",
		"select key, int(value) as n, list(n, n)[1] as m where n != 3",
		"select key, split(value, ',') as l where key ^= 'k'",
		"select key, int_list(1, 2) as l where key ^= 'k'",
		"select key where key in split(value + ',k03', ',')",
		"select key, split(key + ',' + value, ',') as l where 'k05' in l",
		"select * where key between 'k05' and 'k05'",
		"select * where int(value) between 6 and 6",
		"select * where key ~= '^k0[1-3]$'",
		"select key where value between key + '0' and key + '5' | key + '1' in (key + '2', 'zz')",
		"select key, key + ':' + value as kv where key + value != ''",
		"select substr(key, 0, 2) as g, strlen(value) as n, sum(n) as s, group_concat(n, ',') as c where int(value) != 3 group by g, n",
		"select substr(value, 0, 1) as g, count(1) as c, sum(strlen(value)) as l, min(int(value)) as lo, max(int(value)) as hi, avg(int(value)) as a where key ^= 'k' group by g",
	} {
		kvcbCompare(t, q, s, kvcbSizes)
	}
}

// an alias is an abbreviation (C05): the query with the alias expanded returns the same rows
func TestKvcBoundedAliasExpansion(t *testing.T) {
	s := kvcbNumStore(20)
	type pair struct{ with, without string }
	for _, p := range []pair{
		{"select key, int(value) as n where n > 6 & n != 15", "select key, int(value) where int(value) > 6 & int(value) != 15"},
		{"select key, int(value) as n, n + 1 as m where m != 4", "select key, int(value), int(value) + 1 where int(value) + 1 != 4"},
		{"select key, upper(key) as u where u ^= 'K1' & int(value) > 30", "select key, upper(key) where upper(key) ^= 'K1' & int(value) > 30"},
		{"select key, int(value) as n where join(',', n, n) != '3,3'", "select key, int(value) where join(',', int(value), int(value)) != '3,3'"},
	} {
		saved := PlanBatchSize
		for _, bs := range kvcbSizes {
			PlanBatchSize = bs
			for mode := 0; mode < 2; mode++ {
				drain := kvcbDrainRows
				if mode == 1 {
					drain = kvcbDrainBatch
				}
				a, aerr := drain(t, p.with, s)
				b, berr := drain(t, p.without, s)
				if (aerr == nil) != (berr == nil) || fmt.Sprint(a) != fmt.Sprint(b) {
					t.Errorf("batch=%d mode=%d %q vs expansion:\n with   : %v %v\n without: %v %v", bs, mode, p.with, a, aerr, b, berr)
				}
			}
		}
		PlanBatchSize = saved
	}
}

// aliases whose names are prefixes of one another, over keys that start with the rest of the longer
// name: cache keys built from (alias, first key of the chunk) must not be confused
func TestKvcBoundedAliasNames(t *testing.T) {
	s := newKvcbStore()
	for _, k := range []string{"1a", "1b", "1c", "a", "b", "c", "v", "v1", "v1a"} {
		s.Put([]byte(k), []byte(k+k))
	}
	// (key != '1b' makes one scan batch run several filter rounds)
	with := "select key, strlen(value) as v, strlen(key) as v1 where v > 0 & v1 > 0 & v != v1 & key != '1b'"
	without := "select key, strlen(value), strlen(key) where strlen(value) > 0 & strlen(key) > 0 & strlen(value) != strlen(key) & key != '1b'"
	saved := PlanBatchSize
	defer func() { PlanBatchSize = saved }()
	for _, bs := range kvcbSizes {
		PlanBatchSize = bs
		a, aerr := kvcbDrainBatch(t, with, s)
		b, berr := kvcbDrainBatch(t, without, s)
		c, cerr := kvcbDrainRows(t, with, s)
		if aerr != nil || berr != nil || cerr != nil || fmt.Sprint(a) != fmt.Sprint(b) || fmt.Sprint(a) != fmt.Sprint(c) {
			t.Errorf("batch=%d:\n alias batch: %v %v\n expanded   : %v %v\n alias rows : %v %v", bs, a, aerr, b, berr, c, cerr)
		}
	}
}

// aggregates against their definitions (C09) on a store small enough to compute by hand
func TestKvcBoundedAggregates(t *testing.T) {
	s := newKvcbStore()
	s.Put([]byte("a1"), []byte("1.0000001"))
	s.Put([]byte("a2"), []byte("1.0000002"))
	s.Put([]byte("b1"), []byte("2.5"))
	s.Put([]byte("xa"), []byte("bc"))
	s.Put([]byte("xab"), []byte("c"))
	check := func(q string, want []string) {
		for mode := 0; mode < 2; mode++ {
			drain := kvcbDrainRows
			if mode == 1 {
				drain = kvcbDrainBatch
			}
			got, err := drain(t, q, s)
			if err != nil || strings.Join(got, ";") != strings.Join(want, ";") {
				t.Errorf("mode=%d %q:\n got  %v %v\n want %v", mode, q, got, err, want)
			}
		}
	}
	check("select float(value) as f, count(1) as c where key ^= 'a' | key ^= 'b' group by f",
		[]string{`["s:1.0000001" "int64:1"]`, `["s:1.0000002" "int64:1"]`, `["s:2.5" "int64:1"]`})
	check("select key, value, count(1) as c where key ^= 'x' group by key, value",
		[]string{`["s:xa" "s:bc" "int64:1"]`, `["s:xab" "s:c" "int64:1"]`})
	check("select substr(key, 0, 1) as g, strlen(value) as n, sum(n) as s, group_concat(n, ',') as c where key ^= 'a' | key ^= 'b' group by g, n",
		[]string{`["s:a" "s:9" "int64:18" "s:9,9"]`, `["s:b" "s:3" "int64:3" "s:3"]`})
	// arithmetic around several different aggregates in one field: each call keeps its own function
	n := newKvcbStore()
	for i, v := range []string{"1", "11", "6", "5", "7", "6"} {
		n.Put([]byte(fmt.Sprintf("%c%d", 'a'+byte(i/3), i)), []byte(v))
	}
	s = n
	check("select substr(key, 0, 1) as g, sum(int(value)) / count(1) as m, max(int(value)) - min(int(value)) as w, sum(int(value)) * 2 + count(1) as t, min(int(value)) + max(int(value)) * count(1) as u where key >= 'a' group by g",
		[]string{`["s:a" "int64:6" "int64:10" "int64:39" "int64:34"]`, `["s:b" "int64:6" "int64:2" "int64:39" "int64:26"]`})
	check("select count(1) * 100 + sum(int(value)) as t, max(int(value)) - min(int(value)) as w where key >= 'a'",
		[]string{`["int64:636" "int64:10"]`})
}

// the expression rewrite preserves values (C04): every arithmetic tree of the shapes below over the
// leaves {int(value), float(value), 2, 3, 0.5}, evaluated before and after ExpressionOptimizer on
// pairs whose values keep float arithmetic exact
func TestKvcBoundedRewrite(t *testing.T) {
	leaves := []string{"int(value)", "float(value)", "2", "3", "0.5"}
	ops := []string{"+", "-", "*", "/"}
	var exprs []string
	for _, a := range leaves {
		for _, b := range leaves {
			for _, c := range leaves {
				if !(strings.Contains(a+b+c, "value")) {
					continue
				}
				for _, o1 := range ops {
					for _, o2 := range ops {
						exprs = append(exprs, "("+a+" "+o1+" "+b+") "+o2+" "+c, a+" "+o1+" ("+b+" "+o2+" "+c+")")
						for _, d := range []string{"2", "0.5", "int(value)"} {
							for _, o3 := range ops {
								exprs = append(exprs, "(("+a+" "+o1+" "+b+") "+o2+" "+c+") "+o3+" "+d, "("+a+" "+o1+" "+b+") "+o2+" ("+c+" "+o3+" "+d+")")
								exprs = append(exprs, "("+a+" "+o1+" ("+b+" "+o2+" "+c+")) "+o3+" "+d, a+" "+o1+" (("+b+" "+o2+" "+c+") "+o3+" "+d+")")
							}
						}
					}
				}
			}
		}
	}
	show := func(v any) string {
		if f, ok := v.(float64); ok && f == 0 {
			v = 0.0 // -0 and 0 are the same number
		}
		return fmt.Sprintf("%T:%v", v, v)
	}
	pairs := []KVPair{NewKVP([]byte("a"), []byte("0")), NewKVP([]byte("b"), []byte("1")), NewKVP([]byte("c"), []byte("7")), NewKVP([]byte("d"), []byte("-3")), NewKVP([]byte("e"), []byte("16"))}
	bad := 0
	exact := func(src string) bool {
		// keep float arithmetic exact (the property's domain): divide by 2 or 0.5 only
		for i := 0; i+2 < len(src); i++ {
			if src[i] == '/' && !strings.HasPrefix(src[i+2:], "2") && !strings.HasPrefix(src[i+2:], "0.5") {
				return false
			}
		}
		return true
	}
	for _, src := range exprs {
		if !exact(src) {
			continue
		}
		q := "select " + src + " where true = true"
		orig, _, err := BuildExecutor(q)
		if err != nil {
			continue // statically rejected (e.g. division by the literal zero)
		}
		again, _, _ := BuildExecutor(q)
		eo := ExpressionOptimizer{Root: again.Fields[0]}
		rewritten := eo.Optimize()
		for _, kv := range pairs {
			want, err := orig.Fields[0].Execute(kv, nil)
			if err != nil {
				continue
			}
			got, err := rewritten.Execute(kv, nil)
			if err != nil || show(got) != show(want) {
				bad++
				if bad <= 5 {
					t.Errorf("%q on value %s: original gives %s, rewritten %s gives %v %v", src, kv.Value, show(want), rewritten, got, err)
				}
			}
		}
	}
	if bad > 5 {
		t.Errorf("... %d mismatches in all (%d expressions)", bad, len(exprs))
	}
	t.Logf("%d expressions x %d pairs", len(exprs), len(pairs))
}

// TestKvcBoundedRewriteText: the same comparison for text: every `+` chain of up to four operands
// over text literals, key / value and text-valued calls, in all five parenthesisations, before and
// after the expression optimizer (concatenation does not commute: constants may only be merged
// with their neighbours).
func TestKvcBoundedRewriteText(t *testing.T) {
	leaves := []string{"'a'", "'b'", "key", "upper(value)", "str(int(value))", "lower(key)"}
	var exprs []string
	for _, a := range leaves {
		for _, b := range leaves {
			exprs = append(exprs, a+" + "+b)
			for _, c := range leaves {
				exprs = append(exprs, a+" + "+b+" + "+c, a+" + ("+b+" + "+c+")")
				for _, d := range leaves {
					exprs = append(exprs,
						"(("+a+" + "+b+") + "+c+") + "+d,
						"("+a+" + ("+b+" + "+c+")) + "+d,
						"("+a+" + "+b+") + ("+c+" + "+d+")",
						a+" + (("+b+" + "+c+") + "+d+")",
						a+" + ("+b+" + ("+c+" + "+d+"))")
				}
			}
		}
	}
	show := func(v any) string {
		switch b := v.(type) {
		case []byte:
			return "text:" + string(b)
		case string:
			return "text:" + b // (both representations of a text value occur)
		}
		return fmt.Sprintf("%T:%v", v, v)
	}
	pairs := []KVPair{NewKVP([]byte("k1"), []byte("7")), NewKVP([]byte(""), []byte("0")), NewKVP([]byte("Key"), []byte("-12"))}
	bad, n := 0, 0
	for _, src := range exprs {
		q := "select " + src + " where true = true"
		orig, _, err := BuildExecutor(q)
		if err != nil {
			continue
		}
		again, _, _ := BuildExecutor(q)
		eo := ExpressionOptimizer{Root: again.Fields[0]}
		rewritten := eo.Optimize()
		n++
		for _, kv := range pairs {
			want, err := orig.Fields[0].Execute(kv, nil)
			if err != nil {
				continue
			}
			got, err := rewritten.Execute(kv, nil)
			if err != nil || show(got) != show(want) {
				bad++
				if bad <= 5 {
					t.Errorf("%q on (%s, %s): original gives %s, rewritten %s gives %s %v", src, kv.Key, kv.Value, show(want), rewritten, show(got), err)
				}
			}
		}
	}
	if n < 5000 {
		t.Errorf("only %d expressions were accepted", n)
	}
	if bad > 5 {
		t.Errorf("... %d mismatches in all (%d expressions)", bad, n)
	}
	t.Logf("%d expressions x %d pairs", n, len(pairs))
}

// TestKvcBoundedPutRemove: every `put` of three pairs over four keys and four value forms (a
// literal, `key`, upper(key), key + 'x'), executed on a store that hands out guarded slices, must
// leave exactly the sequentially overwritten state (a later duplicate key wins, each value sees its
// own pair's key), write once however often the plan is polled, and a following `remove` of two of
// the keys must leave the rest.
func TestKvcBoundedPutRemove(t *testing.T) {
	keys := []string{"k1", "k2", "q", "a-longer-key-0123456789"}
	type form struct {
		text string
		eval func(k string) string
	}
	forms := []form{
		{"'v'", func(k string) string { return "v" }},
		{"key", func(k string) string { return k }},
		{"upper(key)", func(k string) string { return strings.ToUpper(k) }},
		{"key + 'x'", func(k string) string { return k + "x" }},
	}
	type pair struct {
		k string
		f form
	}
	var pairs []pair
	for _, k := range keys {
		for _, f := range forms {
			pairs = append(pairs, pair{k, f})
		}
	}
	run := func(s *kvcbStore, q string, polls int) error {
		plan, err := NewOptimizer(q).BuildPlan(s)
		if err != nil {
			return fmt.Errorf("build: %v", err)
		}
		ctx := NewExecuteCtx()
		for i := 0; i < polls; i++ {
			if _, err := plan.Next(ctx); err != nil {
				return err
			}
			if _, err := plan.Batch(ctx); err != nil {
				return err
			}
		}
		return nil
	}
	n, bad := 0, 0
	for _, a := range pairs {
		for _, b := range pairs {
			for _, c := range pairs {
				n++
				s := newKvcbStore()
				s.Put([]byte("zz"), []byte("old"))
				want := map[string]string{"zz": "old"}
				q := "put "
				for i, p := range []pair{a, b, c} {
					if i > 0 {
						q += ", "
					}
					q += "('" + p.k + "', " + p.f.text + ")"
					want[p.k] = p.f.eval(p.k)
				}
				err := run(s, q, 2)
				got := s.snapshot()
				if err != nil || fmt.Sprint(got) != fmt.Sprint(want) {
					bad++
					if bad <= 5 {
						t.Errorf("%q: store %q, want %q (err %v)", q, got, want, err)
					}
					continue
				}
				if msg := s.kvcbIntact(want); msg != "" {
					bad++
					if bad <= 5 {
						t.Errorf("%q damaged the stored bytes: %s", q, msg)
					}
					continue
				}
				if n%64 == 0 {
					rq := "remove '" + a.k + "', '" + c.k + "'"
					delete(want, a.k)
					delete(want, c.k)
					err := run(s, rq, 2)
					if got := s.snapshot(); err != nil || fmt.Sprint(got) != fmt.Sprint(want) {
						bad++
						if bad <= 5 {
							t.Errorf("%q after %q: store %q, want %q (err %v)", rq, q, got, want, err)
						}
					}
				}
			}
		}
	}
	if bad > 5 {
		t.Errorf("... %d mismatches in all (%d statements)", bad, n)
	}
	t.Logf("%d put statements", n)
}

// TestKvcBoundedLimit: `limit s, n` returns rows s .. s+n-1 of what the statement returns without
// the limit (C08), for plain, ordered (total orders only) and aggregated SELECT, in both iteration
// modes and at several batch sizes, and for the pairs chosen by DELETE ... LIMIT.
func TestKvcBoundedLimit(t *testing.T) {
	saved := PlanBatchSize
	defer func() { PlanBatchSize = saved }()
	stmts := []string{
		"select * where key ^= 'k'",
		"select key, int(value) as n where n != 9",
		"select * where key ^= 'k' order by key desc",
		"select key, int(value) as n where key ^= 'k' order by n desc, key",
		"select substr(key, 0, 2) as g, count(1) as c where key ^= 'k' group by g",
		"select substr(key, 0, 2) as g, sum(int(value)) as t where key ^= 'k' group by g order by g desc",
	}
	offsets := []int{0, 1, 2, 31, 32, 33, 69, 70, 71}
	counts := []int{0, 1, 2, 31, 32, 33, 100, 9223372036854775807} // (the last: "offset only")
	n, bad := 0, 0
	for _, size := range []int{0, 1, 5, 33, 70} {
		s := kvcbNumStore(size)
		for _, bs := range []int{1, 2, 32} {
			PlanBatchSize = bs
			for _, q := range stmts {
				all, err := kvcbDrainRows(t, q, s)
				if err != nil {
					t.Fatalf("%q: %v", q, err)
				}
				for _, off := range offsets {
					for _, cnt := range counts {
						if bs != 32 && (off > 33 || (cnt > 33 && cnt < 1000)) && size > 33 {
							continue // (the small batch sizes take the smaller windows only)
						}
						lo, hi := off, off+cnt
						if hi < lo { // off + cnt overflows: everything from off on
							hi = len(all)
						}
						if lo > len(all) {
							lo = len(all)
						}
						if hi > len(all) {
							hi = len(all)
						}
						want := fmt.Sprint(all[lo:hi])
						lq := fmt.Sprintf("%s limit %d, %d", q, off, cnt)
						n++
						rows, rerr := kvcbDrainRows(t, lq, s)
						brows, berr := kvcbDrainBatch(t, lq, s)
						if rerr != nil || berr != nil || fmt.Sprint(rows) != want || fmt.Sprint(brows) != want {
							bad++
							if bad <= 5 {
								t.Errorf("store of %d, batch size %d, %q:\n want  %s\n row   %v %v\n batch %v %v", size, bs, lq, want, rows, rerr, brows, berr)
							}
						}
						if off == 0 && cnt > 0 {
							sq := fmt.Sprintf("%s limit %d", q, cnt)
							if rows, err := kvcbDrainRows(t, sq, s); err != nil || fmt.Sprint(rows) != want {
								bad++
								if bad <= 5 {
									t.Errorf("%q: want %s, got %v %v", sq, want, rows, err)
								}
							}
						}
					}
				}
			}
		}
	}
	// DELETE ... LIMIT deletes exactly the pairs the SELECT with the same limit returns
	for _, size := range []int{5, 33, 70} {
		for _, off := range []int{0, 1, 5, 32, 33} {
			for _, cnt := range []int{1, 2, 32, 60} {
				for _, where := range []string{"key ^= 'k'", "key ^= 'k' & int(value) != 9", "key in ('k00', 'k02', 'k03', 'k40')"} {
					PlanBatchSize = 32
					s := kvcbNumStore(size)
					sel, err := kvcbDrainRows(t, fmt.Sprintf("select key where %s limit %d, %d", where, off, cnt), s)
					if err != nil {
						t.Fatal(err)
					}
					before := s.snapshot()
					plan, err := NewOptimizer(fmt.Sprintf("delete where %s limit %d, %d", where, off, cnt)).BuildPlan(s)
					if err != nil {
						t.Fatal(err)
					}
					if _, err := plan.Next(NewExecuteCtx()); err != nil {
						t.Fatal(err)
					}
					n++
					after := s.snapshot()
					gone := map[string]bool{}
					for k := range before {
						if _, ok := after[k]; !ok {
							gone[k] = true
						}
					}
					ok := len(gone) == len(sel) && len(after)+len(gone) == len(before)
					for _, r := range sel {
						k := strings.TrimSuffix(strings.TrimPrefix(r, `["s:`), `"]`)
						ok = ok && gone[k]
					}
					if !ok {
						bad++
						if bad <= 5 {
							t.Errorf("delete where %s limit %d, %d over %d pairs removed %v, the select returns %v", where, off, cnt, size, gone, sel)
						}
					}
				}
			}
		}
	}
	if bad > 5 {
		t.Errorf("... %d mismatches in all (%d statements)", bad, n)
	}
	t.Logf("%d statements", n)
}

// TestKvcBoundedOrder: ORDER BY returns a sorted permutation of the unordered result (C07): the
// multiset of rows is unchanged and adjacent rows are in the documented order of the sort fields
// (numbers numerically, text byte-wise, DESC reversed, later fields break ties).
func TestKvcBoundedOrder(t *testing.T) {
	saved := PlanBatchSize
	defer func() { PlanBatchSize = saved }()
	s := newKvcbStore()
	for i := 0; i < 45; i++ {
		s.Put([]byte(fmt.Sprintf("k%02d", (i*7)%45)), []byte(fmt.Sprintf("%d", (i*i)%11-3)))
	}
	type ord struct {
		col  int
		num  bool
		desc bool
	}
	cases := []struct {
		q    string
		ords []ord
	}{
		{"select key, value where key ^= 'k' order by value", []ord{{1, false, false}}},
		{"select key, value where key ^= 'k' order by value desc, key", []ord{{1, false, true}, {0, false, false}}},
		{"select key, int(value) as n where key ^= 'k' order by n", []ord{{1, true, false}}},
		{"select key, int(value) as n where key ^= 'k' order by n desc, key desc", []ord{{1, true, true}, {0, false, true}}},
		{"select key, int(value) as n, value where n != 2 order by value, n desc, key", []ord{{2, false, false}, {1, true, true}, {0, false, false}}},
		{"select key, float(value) / 2.0 as f where key ^= 'k' order by f, key desc", []ord{{1, true, false}, {0, false, true}}},
		{"select substr(key, 0, 2) as g, count(1) as c, sum(int(value)) as t where key ^= 'k' group by g order by c desc, g", []ord{{1, true, true}, {0, false, false}}},
		{"select key, int(value) as n where key ^= 'b' order by n", []ord{{1, true, false}}},
		{"select key, int(value) as n where key ^= 'b' order by n desc", []ord{{1, true, true}}},
		{"select substr(key, 0, 2) as g, int(value) as n, key where key ^= 'b' order by g, g, n desc", []ord{{0, false, false}, {0, false, false}, {1, true, true}}},
	}
	cell := func(row string, col int) string {
		// rows are rendered as ["kind:text" "kind:text" ...]; the texts here contain no blanks
		parts := strings.Split(strings.TrimSuffix(strings.TrimPrefix(row, "["), "]"), " ")
		if col >= len(parts) {
			return "?:" + row
		}
		return strings.Trim(parts[col], `"`)
	}
	cmp := func(a, b string, o ord) int {
		x, y := cell(a, o.col), cell(b, o.col)
		x, y = x[strings.Index(x, ":")+1:], y[strings.Index(y, ":")+1:]
		r := 0
		if o.num {
			ix, ex := strconv.ParseInt(x, 10, 64)
			iy, ey := strconv.ParseInt(y, 10, 64)
			if ex == nil && ey == nil {
				if ix < iy {
					r = -1
				} else if ix > iy {
					r = 1
				}
			} else {
				var fx, fy float64
				fmt.Sscan(x, &fx)
				fmt.Sscan(y, &fy)
				if fx < fy {
					r = -1
				} else if fx > fy {
					r = 1
				}
			}
		} else {
			r = strings.Compare(x, y)
		}
		if o.desc {
			r = -r
		}
		return r
	}
	big := newKvcbStore()
	for i, v := range []string{"9007199254740993", "9007199254740992", "-9223372036854775808", "9223372036854775807", "0", "-1", "9007199254740994", "-9223372036854775807", "1758900000000000003", "1758900000000000002"} {
		big.Put([]byte(fmt.Sprintf("b%02d", (i*3)%10)), []byte(v))
	}
	for _, bs := range []int{1, 3, 32} {
		PlanBatchSize = bs
		for ci, c := range cases {
			s := s
			if ci >= len(cases)-3 {
				s = big
			}
			plain := c.q[:strings.Index(c.q, " order by ")]
			base, err := kvcbDrainRows(t, plain, s)
			if err != nil {
				t.Fatalf("%q: %v", plain, err)
			}
			for mode := 0; mode < 2; mode++ {
				var rows []string
				if mode == 0 {
					rows, err = kvcbDrainRows(t, c.q, s)
				} else {
					rows, err = kvcbDrainBatch(t, c.q, s)
				}
				if err != nil {
					t.Errorf("%q: %v", c.q, err)
					continue
				}
				a, b := append([]string{}, base...), append([]string{}, rows...)
				sort.Strings(a)
				sort.Strings(b)
				if fmt.Sprint(a) != fmt.Sprint(b) {
					t.Errorf("batch size %d mode %d %q: not a permutation of the unordered result (%d vs %d rows)", bs, mode, c.q, len(rows), len(base))
					continue
				}
				for i := 0; i+1 < len(rows); i++ {
					r := 0
					for _, o := range c.ords {
						if r = cmp(rows[i], rows[i+1], o); r != 0 {
							break
						}
					}
					if r > 0 {
						t.Errorf("batch size %d mode %d %q: rows %d and %d are out of order: %s, %s", bs, mode, c.q, i, i+1, rows[i], rows[i+1])
						break
					}
				}
			}
		}
	}
}
