package kvql

import (
	"fmt"
	"math/rand"
	"strings"
	"testing"
)

// Bounded stand-in for the part of C15 no contract reaches: the parser as a whole against the
// documented precedence table, and parse(render(t)) = t.
//
// The oracle does not climb precedences: a flat operator chain is split at its rightmost operator of
// the lowest documented strength (left associativity), recursively.

// kvcbDump renders a tree structurally (node kinds, operators, literal texts; no positions).
func kvcbDump(e Expression) string {
	switch x := e.(type) {
	case nil:
		return "<nil>"
	case *BinaryOpExpr:
		return fmt.Sprintf("Bin[%d](%s,%s)", x.Op, kvcbDump(x.Left), kvcbDump(x.Right))
	case *NotExpr:
		return "Not(" + kvcbDump(x.Right) + ")"
	case *FieldExpr:
		return fmt.Sprintf("Field[%d]", x.Field)
	case *StringExpr:
		return fmt.Sprintf("Str[%q]", x.Data)
	case *NumberExpr:
		return fmt.Sprintf("Num[%s|%d]", x.Data, x.Int)
	case *FloatExpr:
		return fmt.Sprintf("Float[%s|%v]", x.Data, x.Float)
	case *BoolExpr:
		return fmt.Sprintf("Bool[%v]", x.Bool)
	case *NameExpr:
		return fmt.Sprintf("Name[%s]", x.Data)
	case *ListExpr:
		parts := make([]string, len(x.List))
		for i, it := range x.List {
			parts[i] = kvcbDump(it)
		}
		return "List(" + strings.Join(parts, ",") + ")"
	case *FunctionCallExpr:
		parts := make([]string, len(x.Args))
		for i, it := range x.Args {
			parts[i] = kvcbDump(it)
		}
		return "Call(" + kvcbDump(x.Name) + ";" + strings.Join(parts, ",") + ")"
	case *FieldAccessExpr:
		return "Access(" + kvcbDump(x.Left) + "," + kvcbDump(x.FieldName) + ")"
	case *FieldReferenceExpr:
		return "Ref[" + x.Name.Data + "](" + kvcbDump(x.FieldExpr) + ")"
	}
	return fmt.Sprintf("?%T", e)
}

// kvcbParseExpr runs the real expression parser over src and requires it to consume all of it.
func kvcbParseExpr(src string) (Expression, error) {
	p := NewParser("where " + src)
	p.next()
	p.next()
	if p.tok == nil {
		return nil, fmt.Errorf("empty")
	}
	e, err := p.parseExpr()
	if err != nil {
		return nil, err
	}
	if p.tok != nil {
		return nil, fmt.Errorf("trailing token %q at %d", p.tok.Data, p.tok.Pos)
	}
	return e, nil
}

type kvcbOp struct {
	text string
	op   Operator
	prec int // documented strength: 1 or, 2 and, 3 comparison, 4 additive, 5 multiplicative
}

var kvcbOps = []kvcbOp{
	{"|", Or, 1}, {"or", KWOr, 1}, {"&", And, 2}, {"and", KWAnd, 2},
	{"=", Eq, 3}, {"!=", NotEq, 3}, {"^=", PrefixMatch, 3}, {"~=", RegExpMatch, 3},
	{">", Gt, 3}, {">=", Gte, 3}, {"<", Lt, 3}, {"<=", Lte, 3},
	{"+", Add, 4}, {"-", Sub, 4}, {"*", Mul, 5}, {"/", Div, 5},
}

// kvcbSplit: the documented tree of leaves[0] ops[0] leaves[1] ... (dump form).
func kvcbSplit(leaves []string, ops []kvcbOp) string {
	if len(ops) == 0 {
		return leaves[0]
	}
	at := 0
	for i, o := range ops {
		if o.prec <= ops[at].prec {
			at = i
		}
	}
	return fmt.Sprintf("Bin[%d](%s,%s)", ops[at].op, kvcbSplit(leaves[:at+1], ops[:at]), kvcbSplit(leaves[at+1:], ops[at+1:]))
}

// kvcbRoundTrip: when the statement around src is accepted, its expression rendered by String()
// parses back to the same tree, and that is also what the statement built from the rendering holds.
func kvcbRoundTrip(t *testing.T, src string, accepted *int, bad *int) {
	for _, form := range []int{0, 1} {
		q := "select * where " + src
		if form == 1 {
			q = "select " + src + " where key = 'k'"
		}
		st, err := NewParser(q).Parse()
		if err != nil {
			continue
		}
		sel := st.(*SelectStmt)
		e := sel.Where.Expr
		if form == 1 {
			if len(sel.Fields) != 1 {
				continue
			}
			e = sel.Fields[0]
		}
		*accepted++
		text := e.String()
		back, err := kvcbParseExpr(text)
		if err != nil {
			*bad++
			if *bad <= 8 {
				t.Errorf("%q is accepted, but its printed form %q does not parse: %v", src, text, err)
			}
			return
		}
		if kvcbDump(back) != kvcbDump(e) {
			*bad++
			if *bad <= 8 {
				t.Errorf("%q prints as %q, which parses to a different tree:\n  have %s\n  back %s", src, text, kvcbDump(e), kvcbDump(back))
			}
			return
		}
		q2 := "select * where " + text
		if form == 1 {
			q2 = "select " + text + " where key = 'k'"
		}
		st2, err := NewParser(q2).Parse()
		if err != nil {
			*bad++
			if *bad <= 8 {
				t.Errorf("%q is accepted, the statement over its printed form %q is rejected: %v", src, text, err)
			}
			return
		}
		e2 := st2.(*SelectStmt).Where.Expr
		if form == 1 {
			e2 = st2.(*SelectStmt).Fields[0]
		}
		if kvcbDump(e2) != kvcbDump(e) || e2.String() != text {
			*bad++
			if *bad <= 8 {
				t.Errorf("%q: statement over the printed form %q holds a different tree", src, text)
			}
			return
		}
	}
}

// Every chain of up to four binary operators without parentheses.
func TestKvcBoundedPrecedenceChains(t *testing.T) {
	leafText := []string{"1", "2", "3", "4", "5"}
	leafDump := make([]string, len(leafText))
	for i, l := range leafText {
		leafDump[i] = kvcbDump(newNumberExpr(0, l))
	}
	n, bad, accepted := 0, 0, 0
	var rec func(ops []kvcbOp)
	rec = func(ops []kvcbOp) {
		if len(ops) > 0 {
			var sb strings.Builder
			for i := 0; i <= len(ops); i++ {
				if i > 0 {
					sb.WriteString(" " + ops[i-1].text + " ")
				}
				sb.WriteString(leafText[i])
			}
			src := sb.String()
			n++
			want := kvcbSplit(leafDump[:len(ops)+1], ops)
			got, err := kvcbParseExpr(src)
			if err != nil {
				bad++
				if bad <= 8 {
					t.Errorf("%q does not parse: %v", src, err)
				}
			} else if kvcbDump(got) != want {
				bad++
				if bad <= 8 {
					t.Errorf("%q parses against the documented precedence:\n  have %s\n  want %s", src, kvcbDump(got), want)
				}
			}
			if len(ops) <= 3 {
				kvcbRoundTrip(t, src, &accepted, &bad)
			}
		}
		if len(ops) == 4 {
			return
		}
		for _, o := range kvcbOps {
			rec(append(ops[:len(ops):len(ops)], o))
		}
	}
	rec(nil)
	if n != 16+256+4096+65536 {
		t.Errorf("enumerated %d chains", n)
	}
	if accepted < 200 {
		t.Errorf("only %d accepted chains: the round trip was hardly exercised", accepted)
	}
	if bad > 0 {
		t.Errorf("%d of %d chains disagree", bad, n)
	}
	t.Logf("%d chains, %d accepted statements round-tripped", n, accepted)
}

// kvcbNode is a generated expression with its documented tree (dump) and what is needed to print
// it with as few parentheses as the grammar allows.
type kvcbNode struct {
	dump string
	prec int // strength of the top operator; 9 for operands
	kind byte
	op   kvcbOp
	kids []*kvcbNode
	text string // operands
}

type kvcbGen struct{ r *rand.Rand }

func (g *kvcbGen) pick(xs ...string) string { return xs[g.r.Intn(len(xs))] }

func (g *kvcbGen) leaf(tp byte) *kvcbNode {
	mk := func(text, dump string) *kvcbNode { return &kvcbNode{dump: dump, prec: 9, kind: 'l', text: text} }
	switch tp {
	case 'S':
		switch g.r.Intn(5) {
		case 0:
			return mk("key", "Field[1]")
		case 1:
			return mk("value", "Field[2]")
		case 2:
			s := g.pick("a", "k1", "x y", "and", "(")
			return mk("'"+s+"'", fmt.Sprintf("Str[%q]", s))
		case 3:
			return mk("lower(key)", "Call(Name[lower];Field[1])")
		default:
			return mk("json(value)['f']", `Access(Call(Name[json];Field[2]),Str["f"])`)
		}
	case 'N':
		switch g.r.Intn(4) {
		case 0:
			s := g.pick("1", "20", "007")
			return mk(s, kvcbDump(newNumberExpr(0, s)))
		case 1:
			s := g.pick("2.5", "0.125", "2.0", "10.50")
			return mk(s, kvcbDump(newFloatExpr(0, s)))
		case 2:
			return mk("int(value)", "Call(Name[int];Field[2])")
		default:
			return mk("len(key)", "Call(Name[len];Field[1])")
		}
	}
	switch g.r.Intn(3) {
	case 0:
		return mk("is_int(value)", "Call(Name[is_int];Field[2])")
	case 1:
		return mk("true", "Bool[true]")
	default:
		return mk("false", "Bool[false]")
	}
}

func (g *kvcbGen) bin(o kvcbOp, l, r *kvcbNode) *kvcbNode {
	return &kvcbNode{dump: fmt.Sprintf("Bin[%d](%s,%s)", o.op, l.dump, r.dump), prec: o.prec, kind: 'b', op: o, kids: []*kvcbNode{l, r}}
}

func (g *kvcbGen) opNamed(text string) kvcbOp {
	for _, o := range kvcbOps {
		if o.text == text {
			return o
		}
	}
	panic(text)
}

func (g *kvcbGen) expr(tp byte, depth int) *kvcbNode {
	if depth == 0 || g.r.Intn(5) == 0 {
		return g.leaf(tp)
	}
	switch tp {
	case 'N':
		return g.bin(g.opNamed(g.pick("+", "-", "*", "/")), g.expr('N', depth-1), g.expr('N', depth-1))
	case 'S':
		return g.bin(g.opNamed("+"), g.expr('S', depth-1), g.expr('S', depth-1))
	}
	switch g.r.Intn(8) {
	case 7:
		return g.bin(g.opNamed(g.pick("=", "!=")), g.expr('B', depth-1), g.expr('B', depth-1))
	case 0, 1:
		return g.bin(g.opNamed(g.pick("|", "or", "&", "and")), g.expr('B', depth-1), g.expr('B', depth-1))
	case 2:
		return g.bin(g.opNamed(g.pick("=", "!=", "^=", "~=", ">", "<=")), g.expr('S', depth-1), g.expr('S', depth-1))
	case 3:
		return g.bin(g.opNamed(g.pick("=", "!=", ">", ">=", "<", "<=")), g.expr('N', depth-1), g.expr('N', depth-1))
	case 4:
		k := g.expr('B', depth-1)
		return &kvcbNode{dump: "Not(" + k.dump + ")", prec: 8, kind: 'n', kids: []*kvcbNode{k}}
	case 5:
		et := byte('S')
		if g.r.Intn(2) == 0 {
			et = 'N'
		}
		kids := []*kvcbNode{g.expr(et, depth-1)}
		dumps := []string{}
		for i := 1 + g.r.Intn(3); i > 0; i-- {
			it := g.expr(et, depth-1)
			kids = append(kids, it)
			dumps = append(dumps, it.dump)
		}
		return &kvcbNode{dump: fmt.Sprintf("Bin[%d](%s,List(%s))", In, kids[0].dump, strings.Join(dumps, ",")), prec: 3, kind: 'i', kids: kids}
	default:
		et := byte('S')
		if g.r.Intn(2) == 0 {
			et = 'N'
		}
		kids := []*kvcbNode{g.expr(et, depth-1), g.expr(et, depth-1), g.expr(et, depth-1)}
		return &kvcbNode{dump: fmt.Sprintf("Bin[%d](%s,List(%s,%s))", Between, kids[0].dump, kids[1].dump, kids[2].dump), prec: 3, kind: 'w', kids: kids}
	}
}

// word renders an operator word or keyword in a random letter case.
func (g *kvcbGen) word(w string) string {
	b := []byte(w)
	for i := range b {
		if b[i] >= 'a' && b[i] <= 'z' && g.r.Intn(2) == 0 {
			b[i] -= 32
		}
	}
	return string(b)
}

// print renders n where an operand of strength at least min is expected; extra adds parentheses
// that are not needed with the given probability (percent).
func (g *kvcbGen) print(n *kvcbNode, min int, extra int) string {
	var s string
	switch n.kind {
	case 'l':
		s = n.text
		if s == "key" || s == "value" || s == "true" || s == "false" {
			s = g.word(s)
		}
	case 'b':
		s = g.print(n.kids[0], n.op.prec, extra) + " " + g.word(n.op.text) + " " + g.print(n.kids[1], n.op.prec+1, extra)
	case 'n':
		s = "!" + g.print(n.kids[0], 8, extra)
	case 'i':
		items := make([]string, len(n.kids)-1)
		for i, k := range n.kids[1:] {
			items[i] = g.print(k, 1, extra)
		}
		s = g.print(n.kids[0], 3, extra) + " " + g.word("in") + " (" + strings.Join(items, ", ") + ")"
	case 'w':
		s = g.print(n.kids[0], 3, extra) + " " + g.word("between") + " " + g.print(n.kids[1], 4, extra) + " " + g.word("and") + " " + g.print(n.kids[2], 4, extra)
	}
	if n.prec < min || (n.kind != 'l' && g.r.Intn(100) < extra) {
		s = "(" + s + ")"
	}
	return s
}

// Random typed trees printed with minimal, random and full parenthesisation and random letter case.
func TestKvcBoundedParseRender(t *testing.T) {
	g := &kvcbGen{r: rand.New(rand.NewSource(15))}
	n, bad, accepted := 0, 0, 0
	for i := 0; i < 30000; i++ {
		tree := g.expr("BBBNS"[g.r.Intn(5)], 1+g.r.Intn(4))
		for _, extra := range []int{0, 30, 100} {
			src := g.print(tree, 1, extra)
			n++
			got, err := kvcbParseExpr(src)
			if err != nil {
				if strings.Contains(err.Error(), "nesting depth") {
					continue
				}
				bad++
				if bad <= 8 {
					t.Errorf("%q does not parse: %v", src, err)
				}
				continue
			}
			if kvcbDump(got) != tree.dump {
				bad++
				if bad <= 8 {
					t.Errorf("%q parses against the documented precedence:\n  have %s\n  want %s", src, kvcbDump(got), tree.dump)
				}
				continue
			}
			if extra == 0 {
				kvcbRoundTrip(t, src, &accepted, &bad)
			}
		}
	}
	if accepted < 5000 {
		t.Errorf("only %d accepted statements: the round trip was hardly exercised", accepted)
	}
	if bad > 0 {
		t.Errorf("%d of %d texts disagree", bad, n)
	}
	t.Logf("%d texts, %d accepted statements round-tripped", n, accepted)
}

// Bounded stand-in for the second clause of C16 (a relation between two runs of the lexer, which no
// contract on one run expresses): optional spacing between tokens does not change the token kinds
// and texts. A gap between two tokens is optional when the two texts written back to back lex, on
// their own, as exactly those two tokens; every sequence of up to four tokens from the pool is then
// rendered with every choice of nothing / blank / tab-newline run in its optional gaps and of blank /
// run in its mandatory ones.
func TestKvcBoundedSpacing(t *testing.T) {
	pool := []string{"key", "Value", "foo", "12", "1.5", "'a b'", "\"x'y\"", "=", "!=", "<=", "^=", "!", "+", "(", ")", ",", "[", "]", "and", "&"}
	type tk struct {
		tp   TokenType
		data string
	}
	lex := func(s string) []tk {
		var r []tk
		for _, x := range NewLexer(s).Split() {
			r = append(r, tk{x.Tp, x.Data})
		}
		return r
	}
	same := func(a, b []tk) bool {
		if len(a) != len(b) {
			return false
		}
		for i := range a {
			if a[i] != b[i] {
				return false
			}
		}
		return true
	}
	single := map[string]tk{}
	for _, p := range pool {
		r := lex(p)
		if len(r) != 1 {
			t.Fatalf("pool text %q lexes as %d tokens", p, len(r))
		}
		single[p] = r[0]
	}
	optional := map[[2]string]bool{}
	nopt := 0
	for _, a := range pool {
		for _, b := range pool {
			if same(lex(a+b), []tk{single[a], single[b]}) {
				optional[[2]string{a, b}] = true
				nopt++
			}
		}
	}
	if nopt < 150 {
		t.Fatalf("only %d optional gaps", nopt)
	}
	gaps := []string{"", " ", "\t\n  "}
	n, bad := 0, 0
	var rec func(seq []string)
	rec = func(seq []string) {
		if len(seq) >= 2 {
			want := make([]tk, len(seq))
			for i, s := range seq {
				want[i] = single[s]
			}
			choice := make([]int, len(seq)-1)
			for {
				var sb strings.Builder
				for i, s := range seq {
					if i > 0 {
						g := gaps[choice[i-1]]
						if g == "" && !optional[[2]string{seq[i-1], s}] {
							g = " "
						}
						sb.WriteString(g)
					}
					sb.WriteString(s)
				}
				n++
				if got := lex(sb.String()); !same(got, want) {
					bad++
					if bad <= 8 {
						t.Errorf("%q lexes as %v, want %v", sb.String(), got, want)
					}
				}
				i := 0
				for ; i < len(choice); i++ {
					choice[i]++
					if choice[i] < len(gaps) {
						break
					}
					choice[i] = 0
				}
				if i == len(choice) {
					break
				}
			}
		}
		if len(seq) == 4 {
			return
		}
		for _, p := range pool {
			rec(append(seq[:len(seq):len(seq)], p))
		}
	}
	rec(nil)
	if bad > 0 {
		t.Errorf("%d of %d renderings disagree", bad, n)
	}
	t.Logf("%d renderings, %d optional gaps among %d pairs", n, nopt, len(pool)*len(pool))
}
