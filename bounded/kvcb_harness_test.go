package kvql

import (
	"bytes"
	"fmt"
	"sort"
	"testing"
)

// kvcbStore is a small in-memory Storage. Cursors are snapshots that iterate
// keys in ascending byte order.
// Keys and values are handed out as slices with spare capacity, key and value of a pair back to
// back in one buffer (as an arena-backed store would): a statement that appends to such a slice in
// place, or writes through it, damages the guard bytes and is caught by kvcbIntact.
type kvcbStore struct {
	data map[string][]byte
	keys map[string][]byte
	bufs map[string][]byte
}

const kvcbGuard = 0xA5

func newKvcbStore() *kvcbStore {
	return &kvcbStore{data: make(map[string][]byte), keys: make(map[string][]byte), bufs: make(map[string][]byte)}
}

func (s *kvcbStore) place(key, value []byte) {
	buf := make([]byte, len(key)+4+len(value)+4)
	for i := range buf {
		buf[i] = kvcbGuard
	}
	copy(buf, key)
	copy(buf[len(key)+4:], value)
	k := string(key)
	s.keys[k] = buf[:len(key) : len(key)+4]
	s.data[k] = buf[len(key)+4 : len(key)+4+len(value)]
	s.bufs[k] = buf
}

// kvcbIntact: no stored byte and no guard byte has changed.
func (s *kvcbStore) kvcbIntact(want map[string]string) string {
	for k, buf := range s.bufs {
		v, ok := s.data[k]
		if !ok {
			continue
		}
		if string(s.keys[k]) != k || string(v) != want[k] {
			return fmt.Sprintf("pair %q: stored bytes changed to %q=%q", k, s.keys[k], v)
		}
		for i := len(k); i < len(k)+4; i++ {
			if buf[i] != kvcbGuard {
				return fmt.Sprintf("pair %q: bytes behind the key were overwritten", k)
			}
		}
		for i := len(k) + 4 + len(v); i < len(buf); i++ {
			if buf[i] != kvcbGuard {
				return fmt.Sprintf("pair %q: bytes behind the value were overwritten", k)
			}
		}
	}
	return ""
}

func (s *kvcbStore) snapshot() map[string]string {
	m := map[string]string{}
	for k, v := range s.data {
		m[k] = string(v)
	}
	return m
}

func (s *kvcbStore) Get(key []byte) ([]byte, error) {
	if v, ok := s.data[string(key)]; ok {
		return v, nil
	}
	return nil, nil
}

func (s *kvcbStore) Put(key []byte, value []byte) error {
	s.place(key, value)
	return nil
}

func (s *kvcbStore) BatchPut(kvs []KVPair) error {
	for _, kv := range kvs {
		s.place(kv.Key, kv.Value)
	}
	return nil
}

func (s *kvcbStore) Delete(key []byte) error {
	delete(s.data, string(key))
	delete(s.keys, string(key))
	delete(s.bufs, string(key))
	return nil
}

func (s *kvcbStore) BatchDelete(keys [][]byte) error {
	for _, k := range keys {
		s.Delete(k)
	}
	return nil
}

func (s *kvcbStore) Cursor() (Cursor, error) {
	keys := make([]string, 0, len(s.data))
	for k := range s.data {
		keys = append(keys, k)
	}
	sort.Strings(keys)
	kvs := make([]KVPair, len(keys))
	for i, k := range keys {
		kvs[i] = NewKVP(s.keys[k], s.data[k])
	}
	return &kvcbCursor{kvs: kvs}, nil
}

type kvcbCursor struct {
	kvs []KVPair
	idx int
}

func (c *kvcbCursor) Seek(prefix []byte) error {
	c.idx = sort.Search(len(c.kvs), func(i int) bool {
		return bytes.Compare(c.kvs[i].Key, prefix) >= 0
	})
	return nil
}

func (c *kvcbCursor) Next() ([]byte, []byte, error) {
	if c.idx >= len(c.kvs) {
		return nil, nil, nil
	}
	kv := c.kvs[c.idx]
	c.idx++
	return kv.Key, kv.Value, nil
}

func kvcbRenderRow(cols []Column) string {
	parts := make([]string, len(cols))
	for i, c := range cols {
		switch v := c.(type) {
		case []byte:
			parts[i] = "s:" + string(v)
		case string:
			parts[i] = "s:" + v
		default:
			parts[i] = fmt.Sprintf("%T:%v", c, c)
		}
	}
	return fmt.Sprintf("%q", parts)
}

func kvcbDrainRows(t *testing.T, query string, s Storage) ([]string, error) {
	t.Helper()
	plan, err := NewOptimizer(query).BuildPlan(s)
	if err != nil {
		t.Fatalf("build plan for %q: %v", query, err)
	}
	ctx := NewExecuteCtx()
	var ret []string
	for {
		cols, err := plan.Next(ctx)
		if err != nil {
			return ret, err
		}
		if cols == nil {
			return ret, nil
		}
		ret = append(ret, kvcbRenderRow(cols))
	}
}

func kvcbDrainBatch(t *testing.T, query string, s Storage) ([]string, error) {
	t.Helper()
	plan, err := NewOptimizer(query).BuildPlan(s)
	if err != nil {
		t.Fatalf("build plan for %q: %v", query, err)
	}
	ctx := NewExecuteCtx()
	var ret []string
	for {
		rows, err := plan.Batch(ctx)
		if err != nil {
			return ret, err
		}
		if len(rows) == 0 {
			return ret, nil
		}
		for _, cols := range rows {
			ret = append(ret, kvcbRenderRow(cols))
		}
	}
}

func kvcbCompare(t *testing.T, query string, s Storage, batchSizes []int) {
	t.Helper()
	saved := PlanBatchSize
	defer func() { PlanBatchSize = saved }()
	if ks, ok := s.(*kvcbStore); ok {
		want := ks.snapshot()
		defer func() {
			if msg := ks.kvcbIntact(want); msg != "" {
				t.Errorf("%q damaged the store (a SELECT must not write): %s", query, msg)
			}
		}()
	}
	for _, bs := range batchSizes {
		PlanBatchSize = bs
		rrows, rerr := kvcbDrainRows(t, query, s)
		brows, berr := kvcbDrainBatch(t, query, s)
		if berr != nil || rerr != nil {
			if berr == nil && rerr != nil {
				t.Errorf("batch=%d %q: batch ok but row iteration failed: %v", bs, query, rerr)
			}
			if berr != nil && rerr == nil {
				t.Errorf("batch=%d %q: row ok (%d rows) but batch iteration failed: %v", bs, query, len(rrows), berr)
			}
			continue
		}
		if fmt.Sprint(rrows) != fmt.Sprint(brows) {
			t.Errorf("batch=%d %q:\n row  (%d): %v\n batch(%d): %v", bs, query, len(rrows), rrows, len(brows), brows)
		}
	}
}

// TestSeededDemoAliasReusedInFilter drains the same statement row-at-a-time and
