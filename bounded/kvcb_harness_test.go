package kvql

import (
	"bytes"
	"fmt"
	"sort"
	"testing"
)

// kvcbStore is a small in-memory Storage. Cursors are snapshots that iterate
// keys in ascending byte order.
type kvcbStore struct {
	data map[string][]byte
}

func newKvcbStore() *kvcbStore {
	return &kvcbStore{data: make(map[string][]byte)}
}

func (s *kvcbStore) Get(key []byte) ([]byte, error) {
	if v, ok := s.data[string(key)]; ok {
		return v, nil
	}
	return nil, nil
}

func (s *kvcbStore) Put(key []byte, value []byte) error {
	s.data[string(key)] = value
	return nil
}

func (s *kvcbStore) BatchPut(kvs []KVPair) error {
	for _, kv := range kvs {
		s.data[string(kv.Key)] = kv.Value
	}
	return nil
}

func (s *kvcbStore) Delete(key []byte) error {
	delete(s.data, string(key))
	return nil
}

func (s *kvcbStore) BatchDelete(keys [][]byte) error {
	for _, k := range keys {
		delete(s.data, string(k))
	}
	return nil
}

func (s *kvcbStore) Cursor() (Cursor, error) {
	keys := make([]string, 0, len(s.data))
	for k := range s.data {
		keys = append(keys, k)
	}
	sort.Strings(keys)
	kvs := make([]KVPair, len(keys))
	for i, k := range keys {
		kvs[i] = NewKVP([]byte(k), s.data[k])
	}
	return &kvcbCursor{kvs: kvs}, nil
}

type kvcbCursor struct {
	kvs []KVPair
	idx int
}

func (c *kvcbCursor) Seek(prefix []byte) error {
	c.idx = sort.Search(len(c.kvs), func(i int) bool {
		return bytes.Compare(c.kvs[i].Key, prefix) >= 0
	})
	return nil
}

func (c *kvcbCursor) Next() ([]byte, []byte, error) {
	if c.idx >= len(c.kvs) {
		return nil, nil, nil
	}
	kv := c.kvs[c.idx]
	c.idx++
	return kv.Key, kv.Value, nil
}

func kvcbRenderRow(cols []Column) string {
	parts := make([]string, len(cols))
	for i, c := range cols {
		switch v := c.(type) {
		case []byte:
			parts[i] = "s:" + string(v)
		case string:
			parts[i] = "s:" + v
		default:
			parts[i] = fmt.Sprintf("%T:%v", c, c)
		}
	}
	return fmt.Sprintf("%q", parts)
}

func kvcbDrainRows(t *testing.T, query string, s Storage) ([]string, error) {
	t.Helper()
	plan, err := NewOptimizer(query).BuildPlan(s)
	if err != nil {
		t.Fatalf("build plan for %q: %v", query, err)
	}
	ctx := NewExecuteCtx()
	var ret []string
	for {
		cols, err := plan.Next(ctx)
		if err != nil {
			return ret, err
		}
		if cols == nil {
			return ret, nil
		}
		ret = append(ret, kvcbRenderRow(cols))
	}
}

func kvcbDrainBatch(t *testing.T, query string, s Storage) ([]string, error) {
	t.Helper()
	plan, err := NewOptimizer(query).BuildPlan(s)
	if err != nil {
		t.Fatalf("build plan for %q: %v", query, err)
	}
	ctx := NewExecuteCtx()
	var ret []string
	for {
		rows, err := plan.Batch(ctx)
		if err != nil {
			return ret, err
		}
		if len(rows) == 0 {
			return ret, nil
		}
		for _, cols := range rows {
			ret = append(ret, kvcbRenderRow(cols))
		}
	}
}

func kvcbCompare(t *testing.T, query string, s Storage, batchSizes []int) {
	t.Helper()
	saved := PlanBatchSize
	defer func() { PlanBatchSize = saved }()
	for _, bs := range batchSizes {
		PlanBatchSize = bs
		rrows, rerr := kvcbDrainRows(t, query, s)
		brows, berr := kvcbDrainBatch(t, query, s)
		if berr != nil || rerr != nil {
			if berr == nil && rerr != nil {
				t.Errorf("batch=%d %q: batch ok but row iteration failed: %v", bs, query, rerr)
			}
			if berr != nil && rerr == nil {
				t.Errorf("batch=%d %q: row ok (%d rows) but batch iteration failed: %v", bs, query, len(rrows), berr)
			}
			continue
		}
		if fmt.Sprint(rrows) != fmt.Sprint(brows) {
			t.Errorf("batch=%d %q:\n row  (%d): %v\n batch(%d): %v", bs, query, len(rrows), rrows, len(brows), brows)
		}
	}
}

// TestSeededDemoAliasReusedInFilter drains the same statement row-at-a-time and
