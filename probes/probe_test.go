package kvql

import (
	"bytes"
	"fmt"
	"sort"
	"testing"
)

// demoStore is a small in-memory Storage. Cursors are snapshots that iterate
// keys in ascending byte order.
type demoStore struct {
	data map[string][]byte
}

func newDemoStore() *demoStore {
	return &demoStore{data: make(map[string][]byte)}
}

func (s *demoStore) Get(key []byte) ([]byte, error) {
	if v, ok := s.data[string(key)]; ok {
		return v, nil
	}
	return nil, nil
}

func (s *demoStore) Put(key []byte, value []byte) error {
	s.data[string(key)] = value
	return nil
}

func (s *demoStore) BatchPut(kvs []KVPair) error {
	for _, kv := range kvs {
		s.data[string(kv.Key)] = kv.Value
	}
	return nil
}

func (s *demoStore) Delete(key []byte) error {
	delete(s.data, string(key))
	return nil
}

func (s *demoStore) BatchDelete(keys [][]byte) error {
	for _, k := range keys {
		delete(s.data, string(k))
	}
	return nil
}

func (s *demoStore) Cursor() (Cursor, error) {
	keys := make([]string, 0, len(s.data))
	for k := range s.data {
		keys = append(keys, k)
	}
	sort.Strings(keys)
	kvs := make([]KVPair, len(keys))
	for i, k := range keys {
		kvs[i] = NewKVP([]byte(k), s.data[k])
	}
	return &demoCursor{kvs: kvs}, nil
}

type demoCursor struct {
	kvs []KVPair
	idx int
}

func (c *demoCursor) Seek(prefix []byte) error {
	c.idx = sort.Search(len(c.kvs), func(i int) bool {
		return bytes.Compare(c.kvs[i].Key, prefix) >= 0
	})
	return nil
}

func (c *demoCursor) Next() ([]byte, []byte, error) {
	if c.idx >= len(c.kvs) {
		return nil, nil, nil
	}
	kv := c.kvs[c.idx]
	c.idx++
	return kv.Key, kv.Value, nil
}

func demoRenderRow(cols []Column) string {
	parts := make([]string, len(cols))
	for i, c := range cols {
		switch v := c.(type) {
		case []byte:
			parts[i] = "s:" + string(v)
		case string:
			parts[i] = "s:" + v
		default:
			parts[i] = fmt.Sprintf("%T:%v", c, c)
		}
	}
	return fmt.Sprintf("%q", parts)
}

func demoDrainRows(t *testing.T, query string, s Storage) ([]string, error) {
	t.Helper()
	plan, err := NewOptimizer(query).BuildPlan(s)
	if err != nil {
		t.Fatalf("build plan for %q: %v", query, err)
	}
	ctx := NewExecuteCtx()
	var ret []string
	for {
		cols, err := plan.Next(ctx)
		if err != nil {
			return ret, err
		}
		if cols == nil {
			return ret, nil
		}
		ret = append(ret, demoRenderRow(cols))
	}
}

func demoDrainBatch(t *testing.T, query string, s Storage) ([]string, error) {
	t.Helper()
	plan, err := NewOptimizer(query).BuildPlan(s)
	if err != nil {
		t.Fatalf("build plan for %q: %v", query, err)
	}
	ctx := NewExecuteCtx()
	var ret []string
	for {
		rows, err := plan.Batch(ctx)
		if err != nil {
			return ret, err
		}
		if len(rows) == 0 {
			return ret, nil
		}
		for _, cols := range rows {
			ret = append(ret, demoRenderRow(cols))
		}
	}
}

func demoCompare(t *testing.T, query string, s Storage, batchSizes []int) {
	t.Helper()
	saved := PlanBatchSize
	defer func() { PlanBatchSize = saved }()
	for _, bs := range batchSizes {
		PlanBatchSize = bs
		rrows, rerr := demoDrainRows(t, query, s)
		brows, berr := demoDrainBatch(t, query, s)
		if berr != nil || rerr != nil {
			if berr == nil && rerr != nil {
				t.Errorf("batch=%d %q: batch ok but row iteration failed: %v", bs, query, rerr)
			}
			if berr != nil && rerr == nil {
				t.Errorf("batch=%d %q: row ok (%d rows) but batch iteration failed: %v", bs, query, len(rrows), berr)
			}
			continue
		}
		if fmt.Sprint(rrows) != fmt.Sprint(brows) {
			t.Errorf("batch=%d %q:\n row  (%d): %v\n batch(%d): %v", bs, query, len(rrows), rrows, len(brows), brows)
		}
	}
}

// TestSeededDemoAliasReusedInFilter drains the same statement row-at-a-time and

func TestProbeLimitAlias(t *testing.T) {
	s := newDemoStore()
	for i := 0; i < 20; i++ {
		s.Put([]byte(fmt.Sprintf("k%02d", i)), []byte(fmt.Sprintf("%d", i*3)))
	}
	sizes := []int{1, 2, 3, 5, 7, 32}
	qs := []string{
		"select key, int(value) as n where n > 6 limit 2, 5",
		"select key, int(value) as n where n > 6 limit 5",
		"select key, int(value) as n where n > 6 & key ^= 'k1' limit 3, 4",
		"select key, int(value) as n where n > 6 | n = 0 order by n desc limit 3",
		"select key, int(value) as n where n > 6 order by key desc",
		"select key, int(value) * 2 as n, n + 1 as m where n > 6 & m > 0 limit 1, 3",
		"select key, upper(key) as u where u ^= 'K1' & int(value) > 30 limit 2",
		"select key, int(value) as n where key in ('k01','k05','k07','k09') & n > 3 limit 1,2",
	}
	for _, q := range qs {
		demoCompare(t, q, s, sizes)
	}
}
