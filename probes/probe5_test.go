package kvql

import (
	"testing"
)

func TestProbeListColumns(t *testing.T) {
	s := newDemoStore()
	s.Put([]byte("k1"), []byte("1,2"))
	s.Put([]byte("k2"), []byte("3"))
	sizes := []int{1, 2, 32}
	qs := []string{
		"select key, split(value, ',') as l where key ^= 'k'",
		"select key, int_list(1, 2) as l where key ^= 'k'",
		"select key, float_list(1, 2) as l where key ^= 'k'",
		"select key, json(value) as l where key ^= 'k'",
	}
	for _, q := range qs {
		demoCompare(t, q, s, sizes)
		rows, err := demoDrainRows(t, q, s)
		t.Logf("%s -> %v %v", q, rows, err)
	}
}
