package kvql

import "testing"

func TestProbeGroupFloat(t *testing.T) {
	s := newDemoStore()
	s.Put([]byte("a"), []byte("1.0000001"))
	s.Put([]byte("b"), []byte("1.0000002"))
	s.Put([]byte("c"), []byte("2.5"))
	for _, q := range []string{
		"select float(value) as f, count(1) as c where key ^= '' group by f",
		"select int(float(value)) as n, count(1) as c where key ^= '' group by n",
	} {
		rows, err := demoDrainRows(t, q, s)
		t.Logf("%s -> %v %v", q, rows, err)
		p, _ := NewOptimizer(q).BuildPlan(s)
		t.Logf("   types %v", p.FieldTypeList())
	}
}
