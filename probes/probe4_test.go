package kvql

import (
	"testing"
)

func TestProbeListDispatch(t *testing.T) {
	s := newDemoStore()
	s.Put([]byte("k1"), []byte("1"))
	s.Put([]byte("k2"), []byte("1.5"))
	s.Put([]byte("k3"), []byte("2"))
	sizes := []int{1, 2, 3, 32}
	qs := []string{
		"select key, list(value) as l where key ^= 'k'",
		"select key, list(value, '2') as l where key ^= 'k'",
		"select key, len(list(value)) as l where key ^= 'k'",
		"select key, list(value)[0] as l where key ^= 'k'",
	}
	for _, q := range qs {
		demoCompare(t, q, s, sizes)
	}
}
