package kvql

import "testing"

func TestProbeInList(t *testing.T) {
	s := newDemoStore()
	s.Put([]byte("a"), []byte("a,b"))
	s.Put([]byte("b"), []byte("c,d"))
	s.Put([]byte("c"), []byte("c"))
	for _, q := range []string{
		"select key where key in split(value, ',')",
		"select key, split(value, ',') as l where key in l",
		"select key where 1 in int_list(1, 2)",
		"select key where int(key + '1') in list(1, 2)",
	} {
		demoCompare(t, q, s, []int{1, 2, 32})
		rows, err := demoDrainRows(t, q, s)
		t.Logf("%s -> %v %v", q, rows, err)
	}
}
