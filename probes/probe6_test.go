package kvql

import (
	"testing"
)

func TestProbeReassoc(t *testing.T) {
	s := newDemoStore()
	s.Put([]byte("k1"), []byte("9007199254740992"))
	s.Put([]byte("k2"), []byte("0.1"))
	qs := []string{
		"select key, (float(value) + 1) + 2 as a, float(value) + 1 as b where key ^= 'k'",
		"select key, (float(value) + 0.1) + 0.2 as a where key ^= 'k'",
		"select key, (float(value) * 0.1) * 3 as a where key ^= 'k'",
	}
	for _, q := range qs {
		rows, err := demoDrainRows(t, q, s)
		t.Logf("%s\n   -> %v %v", q, rows, err)
		o := NewOptimizer(q)
		p, err := o.BuildPlan(s)
		if err == nil {
			t.Logf("   plan: %v", p.Explain())
		}
	}
}
