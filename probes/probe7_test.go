package kvql

import "testing"

func TestProbeBetweenEqual(t *testing.T) {
	s := newDemoStore()
	s.Put([]byte("a"), []byte("1"))
	s.Put([]byte("b"), []byte("2"))
	s.Put([]byte("c"), []byte("3"))
	for _, q := range []string{
		"select * where key between 'b' and 'b'",
		"select * where value between '2' and '2'",
		"select * where int(value) between 2 and 2",
		"select * where int(value) between 1 and 2",
	} {
		demoCompare(t, q, s, []int{1, 2, 32})
		rows, err := demoDrainRows(t, q, s)
		t.Logf("%s -> %v %v", q, rows, err)
	}
}
