package kvql

import (
	"fmt"
	"testing"
)

func TestProbeAliasInProjection(t *testing.T) {
	s := newDemoStore()
	for i := 0; i < 10; i++ {
		s.Put([]byte(fmt.Sprintf("k%02d", i)), []byte(fmt.Sprintf("%d", i*3)))
	}
	sizes := []int{1, 2, 3, 5, 32}
	qs := []string{
		"select key, int(value) as n, n + 1 as m where n != 3",
		"select key, int(value) as n, n + 1 as m where n != 3 & n != 12",
		"select key, int(value) as n, str(n) as m where n != 3",
	}
	for _, q := range qs {
		demoCompare(t, q, s, sizes)
	}
}

func TestProbeAliasMore(t *testing.T) {
	s := newDemoStore()
	for i := 0; i < 10; i++ {
		s.Put([]byte(fmt.Sprintf("k%02d", i)), []byte(fmt.Sprintf("%d", i*3)))
	}
	sizes := []int{1, 2, 3, 5, 32}
	qs := []string{
		"select n + 1 as m, key, int(value) as n where n != 3",
		"select key, int(value) as n, n + 1 as m, m * 2 as o where n != 3 & m != 13",
		"select key, int(value) as n, n + 1 as m where n != 6 order by m desc",
		"select key, int(value) as n, n + 1 as m where n != 3 order by m desc limit 1, 3",
		"select int(value) as n, count(1), sum(n) where n != 3 group by n",
		"select key, int(value) as n, sum(n + 1) as q where n != 3 group by key, n",
		"select key, int(value) as n, join(',', n, n) as m where n != 3",
		"select key, int(value) as n where join(',', n, n) != '3,3'",
		"select key, int(value) as n, list(n, n)[1] as m where n != 3",
	}
	for _, q := range qs {
		demoCompare(t, q, s, sizes)
	}
}
