package kvql

import (
	"fmt"
	"testing"
)

func TestProbeAggrAlias(t *testing.T) {
	s := newDemoStore()
	for i := 0; i < 10; i++ {
		s.Put([]byte(fmt.Sprintf("k%02d", i)), []byte(fmt.Sprintf("%d", i*3)))
	}
	sizes := []int{1, 2, 3, 5, 32}
	qs := []string{
		"select substr(key, 0, 2) as g, sum(int(value)) as s where key ^= 'k' group by g",
		"select substr(key, 0, 2) as g, int(value) as n, sum(n) as s where n != 3 group by g, n",
		"select substr(key, 0, 1) as g, strlen(value) as n, sum(n) as s, group_concat(n, ',') as c where int(value) != 3 group by g, n",
		"select substr(key, 0, 1) as g, sum(int(g + value)) as s where int(value) != 3 group by g",
		"select substr(value, 0, 1) as g, sum(strlen(g + value)) as s, group_concat(g, '') as c where int(value) != 3 group by g",
		"select substr(key, 0, 2) as g, group_concat(key, ',') as s where key ^= 'k' group by g",
		"select substr(key, 0, 2) as g, min(int(value)) as lo, max(int(value)) as hi, avg(int(value)) as a, count(1) as c where key ^= 'k' group by g",
		"select substr(value, 0, 1) as g, count(1) as c, sum(strlen(value)) as l where key ^= 'k' group by g",
	}
	for _, q := range qs {
		demoCompare(t, q, s, sizes)
		rows, err := demoDrainRows(t, q, s)
		t.Logf("%s\n   -> %v %v", q, rows, err)
	}
}
