#!/bin/bash
# Must-fail corpus: applies every stored seeded change to /repo in turn, runs the check(s) expected
# to catch it and reports whether they did; the tree is restored after each one.
# usage: selftest.sh [id...]     (expectations: seeded/EXPECT, lines "<id> <Cxx> detect|miss")
cd /verif
# the runs on changed trees must not leave their evidence / replay files behind
keep=$(mktemp -d /verif/out/selftest-keep.XXXXXX 2>/dev/null || (mkdir -p /verif/out && mktemp -d /verif/out/selftest-keep.XXXXXX))
cp -a evidence "$keep/evidence"; [ -d replays ] && cp -a replays "$keep/replays"
restore() { rm -rf /verif/evidence /verif/replays; cp -a "$keep/evidence" /verif/evidence; [ -d "$keep/replays" ] && cp -a "$keep/replays" /verif/replays; rm -rf "$keep"; }
trap restore EXIT
ids="$@"; [ -z "$ids" ] && ids=$(awk '{print $1}' seeded/EXPECT | sort -u)
bad=0
for id in $ids; do
  while read -r i prop want; do
    [ "$i" = "$id" ] || continue
    (cd /repo && git apply /verif/seeded/$id/patch.diff 2>/dev/null || patch -p1 -s < /verif/seeded/$id/patch.diff) || { echo "$id: cannot apply"; bad=1; continue; }
    out=$(/verif/bin/kvc check $prop 2>&1 | grep -E "^VIOLATION|^C[0-9]+:")
    (cd /repo && git checkout -- . )
    if echo "$out" | grep -q "^VIOLATION"; then got=detect; else got=miss; fi
    ob=$(echo "$out" | grep "^VIOLATION" | head -1 | sed 's/.*replays\/C[0-9]*\///; s/\.json.*//')
    if [ "$got" = "$want" ]; then echo "ok    $id $prop $got $ob"; else echo "DIFF  $id $prop expected=$want got=$got $ob"; bad=1; fi
  done < seeded/EXPECT
done
[ -n "$(cd /repo && git status --porcelain)" ] && { echo "WARNING: /repo not clean"; bad=1; }
exit $bad
