module canary

go 1.21
