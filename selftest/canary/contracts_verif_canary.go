//go:build verif

package canary

//@ func needsPositive(x int) (r int)
//@   requires pos: x > 0
//@   ensures r >= 0
//
//@ func callsWithAnything(x int) (r int)
//@   ensures r >= 0
//
//@ func callsGuarded(x int) (r int)
//@   ensures r >= 0
//
//@ func wrongPost(x int) (r int)
//@   ensures bad: r == x + 2
//
//@ func rightPost(x int) (r int)
//@   ensures good: r == x + 1
//
//@ func sumTo(n int) (r int)
//@   requires n >= 0
//@   ensures r == n
//@   loop 0
//@     invariant 0 <= i && i <= n && s == i
//
//@ func sumToBad(n int) (r int)
//@   requires n >= 0
//@   ensures r == n
//@   loop 0
//@     invariant 0 <= i && i <= n && s == i
//
//@ func oob(a []int, i int) (r int)
//@   ensures true
//
//@ func inb(a []int, i int) (r int)
//@   ensures true
//
//@ func touchesW(b *box)
//@   requires b != nil
//@   assigns b.v
//
//@ func touchesV(b *box)
//@   requires b != nil
//@   assigns b.v
//@   ensures b.v == 1
//
//@ func twoChecks(a []int, i int) (r int)
//@   ensures true
//
//@ func twoChar(q string, i int) (t *tok)
//@   ensures exact: t != nil ==> val(t.Data) == sub(val(q), t.Pos, t.Pos + len(t.Data))
//
//@ func oneChar(q string, i int) (t *tok)
//@   ensures exact: t != nil ==> val(t.Data) == sub(val(q), t.Pos, t.Pos + len(t.Data))
//
//@ specfun areaOf(Int) Int
//@ axiom sq_area(q *sq): areaOf(q) == q.s * 3
//@ axiom sq2_area(q *sq2): areaOf(q) == q.s * 3
//@ iface (x shape) area() (r int)
//@   requires x != nil
//@   assigns nothing
//@   ensures named: r == areaOf(x)
//
//@ func (q *sq) area() (r int) implements shape.area
//@   ifaceassumed named
//@   use sq_area(q)
//@   requires q != nil
//@   ensures twin: r == areaOf(q)
//
//@ func (q *sq2) area() (r int) implements shape.area
//@   ifaceassumed named
//@   use sq2_area(q)
//@   requires q != nil
//@   ensures twin: r == areaOf(q)
