package canary

// Tiny functions with deliberately wrong / right contracts: the engine's must-fail corpus.

func needsPositive(x int) int { return x - 1 }

func callsWithAnything(x int) int { return needsPositive(x) } // precondition NOT established

func callsGuarded(x int) int {
	if x > 0 {
		return needsPositive(x)
	}
	return 0
}

func wrongPost(x int) int { return x + 1 }

func rightPost(x int) int { return x + 1 }

func sumTo(n int) int {
	s := 0
	for i := 0; i < n; i++ {
		s += 1
	}
	return s
}

func sumToBad(n int) int {
	s := 0
	for i := 0; i < n; i++ {
		s += 2
	}
	return s
}

func oob(a []int, i int) int { return a[i] }

func inb(a []int, i int) int {
	if i >= 0 && i < len(a) {
		return a[i]
	}
	return 0
}

type box struct{ v, w int }

func touchesW(b *box) { b.w = 1 } // frame says only v

func touchesV(b *box) { b.v = 1 }

func twoChecks(a []int, i int) int {
	// the second access is covered by the first check having passed; the first is not covered by anything
	return a[i] + a[i]
}

type tok struct {
	Data string
	Pos  int
}

func twoChar(q string, i int) *tok {
	if i >= 1 && i < len(q) && q[i] == '=' && q[i-1] == '^' {
		return &tok{Data: "^=", Pos: i - 1}
	}
	return nil
}

func oneChar(q string, i int) *tok {
	if i >= 0 && i < len(q) && q[i] == '(' {
		c := q[i]
		return &tok{Data: string(c), Pos: i}
	}
	return nil
}

// An interface whose contract names its outcome by a spec function; an implementation that
// declares the naming clause definitional (ifaceassumed) must still prove its own clauses from the
// code, not from that clause.
type shape interface{ area() int }

type sq struct{ s int }

func (q *sq) area() int { return q.s + q.s } // not s * s: the clause `twin` below is false

type sq2 struct{ s int }

func (q *sq2) area() int { return q.s * 3 }
