#!/usr/bin/env python3
"""Regenerates /verif/MANIFEST.json from the table below (run after registering a check)."""
import json, subprocess

TECH = "contract-based deductive verification (pre/postconditions, loop invariants, frames, ghost state over go/ssa; weakest-precondition VCs discharged by z3 / cvc5)"
TRUST = "Trusted: go/ssa translation, the engine's VC generation (exercised by the must-fail corpus), the SMT solvers, the byte-string axioms; integers are mathematical. "

CLAIMS = {
 "C02": ("proof",
  "Every function of filter_optimizer.go carries a contract stating that the key region of its result covers every key on which the predicate can hold (ghost key, documented operator semantics as oracle); the obligations are generated from the go/ssa form of the working tree on every run and discharged by SMT for all predicate trees, literals and keys, without bound.",
  TRUST + "The sem_* oracle axioms are transcribed from the README. The link from scan type to the keys a plan actually reads is the subject of C18/C01, not of this check.",
  "DESIGN.md section 5, C02"),
 "C01": ("proof",
  "Row mode: the evaluator (BinaryOpExpr.Execute and its helpers, NotExpr, literals, key/value) is proved to compute the documented meaning of = != ^= & | > >= < <= + - * / ! from the values of the operands, with exact definedness conditions; Filter is proved to return `evaluates to true`; the four scan plans are proved to return exactly the next filtered pair in cursor order, to skip only pairs that fail the filter, and to report the end only when the region is exhausted. 40 functions; obligations from the go/ssa form of the working tree, discharged by z3 / cvc5.",
  TRUST + "Regular expressions, IN, BETWEEN, scalar functions and the batch-mode twins are not covered (thin assumed contracts, listed). Evaluation is a function of expression and pair (A-EVAL); cursor behaviour is A-STORE. Composition over calls is argued on paper.",
  "DESIGN.md section 5, C01"),
 "C05": ("proof",
  "Row mode: an alias reference is proved to evaluate exactly as its defining expression for every pair, cache content and cache switch; the per-row cache is proved invisible through a coherence invariant (every entry is the value of its alias on the current pair) that Expression.Execute requires and preserves, that the four row-mode scans establish for every pair before filtering it (this failed on the pinned tree: defect D5, repaired) and hand over with the returned pair, and that ProjectionPlan uses to return one column per field, in order, each the field's value on that pair.",
  TRUST + "Batch mode (chunk caches) and aliases in ORDER BY / GROUP BY are not covered. That every reference points at the select field of its name (A-ALIAS) and that evaluation is a function of expression and pair (A-EVAL) are assumptions.",
  "DESIGN.md section 5, C05"),
 "C08": ("proof",
  "LimitPlan and FinalLimitPlan (Init, Next, Batch) are proved, for every offset, count, result size, symbolic batch size and every split of the child's output into batches, to return exactly the next rows Start+current.. of the child's ghost output sequence, to stop at Count or at the child's end, and to maintain the object invariant that makes the per-call statement compose over calls.",
  TRUST + "The child is represented by the Plan/FinalPlan interface contract (ghost sequence, any batch split). Composition over calls is an induction argued on paper with the machine-checked object invariant as hypothesis. The limit half of AggregatePlan.Next/Batch is proved over assumed thin contracts of next()/batch(); parseLimit and buildFinalPlan wiring are not yet under contract.",
  "DESIGN.md section 5, C08"),
 "C10": ("proof",
  "Row forms of the scalar functions are under contract against their one-line descriptions: value coercions (decimal rendering and reading), str / int / float / is_int / is_float / strlen, substr (clamped byte range), len and [n] over every list representation, int_list / float_list keeping argument order, distances refusing unequal lengths. 19 functions; three defects found by failed obligations and repaired (substr panic, len and indexing refusing list kinds).",
  TRUST + "upper / lower, split / join, json parsing and the numeric values of the distances rest on standard-library behaviour or uninterpreted floats and are not covered; the vector forms belong to C03.",
  "DESIGN.md section 5, C10"),
 "C11": ("proof",
  "DeletePlan (execute, Init, Next, Batch) is proved to drain its child's ghost output sequence, to hand exactly the keys of each batch - and nothing else - to BatchDelete, to delete as many keys as rows were drained, to issue no Put/BatchPut/Delete, and to execute once.",
  TRUST + "Storage behaviour (A-STORE) and the child's interface contract are assumptions; that the child sequence equals what the corresponding SELECT returns is composition with C01/C02/C08 (paper step). buildDeletePlan and the REMOVE shortcut are not yet under contract.",
  "DESIGN.md section 5, C11"),
 "C12": ("proof",
  "PutPlan and RemovePlan are proved: pairs/keys are the evaluated expressions (a value sees its own evaluated key), nothing is written before every expression has evaluated, exactly one storage call with the pairs in order is issued on success, none on failure, and polling a finished plan issues nothing.",
  TRUST + "Expression.Execute is assumed to be a function of expression and pair (interface contract); Put/BatchPut/Delete/BatchDelete semantics are A-STORE. Parser/validators for PUT and REMOVE are not yet under contract.",
  "DESIGN.md section 5, C12"),

 "C14": ("proof",
  "checker.go is under contract: each operator's operand rule is a postcondition of its checkWith* function (stated over the static result types of the operands), and a ghost mark proves that a successful Check of any node implies a successful Check of every operand, list item, argument and field-access operand below it, with the in-place alias rewriting modelled exactly (element-level frames); Check returns only SyntaxError values. 29 functions, obligations generated from the working tree's go/ssa form on every run and discharged by z3 / cvc5.",
  TRUST + "Known finding D13 (unknown function / wrong argument count accepted at build time; pinned by the existing tests, not repaired) is listed in known_findings.json. The converse direction (allowed statements are accepted and never raise operand-type errors) and the parser's per-statement keyword flags are not covered. Static result types are a specification function (A-RTYPE).",
  "DESIGN.md section 5, C14"),
 "C15": ("proof",
  "The recursive-descent expression parser is under contract: Token.Precedence and BuildOp are proved equal to the documented operator table, and parseBinaryExpr and its eleven helpers are proved, for every token sequence, to build only binary nodes whose left operand binds at least as strongly and whose right operand binds strictly more strongly than the node's operator (ghost binding level, parentheses / calls / indexes / lists at the top level), to stop exactly in front of a weaker operator, and to parse BETWEEN bounds above the comparison level. Obligations are generated from the go/ssa form of the working tree on every run (defer, closures and the constant operator map included) and discharged by z3 / cvc5.",
  TRUST + "Covers the binding-strength / associativity half of the property. The String()/re-parse round trip, case folding and in-order token consumption are not covered (see evidence). The ghost level is maintained by ghost statements in the contract file.",
  "DESIGN.md section 5, C15"),
 "C16": ("proof",
  "lexer.go is under contract: Lexer.Split is proved, for every query string, to emit only tokens whose offset and text are exactly (or, for words, the lower-case form of) the query bytes they stand for, quoted literals being the bytes between their two quote characters; buildToken's classification equals the documented keyword / number / float / name table. Scanner-state loop invariant, one obligation per append site, per-path invariant preservation; string theory with sub/at/cat/blen axioms; discharged by z3 / cvc5.",
  TRUST + "strings.ToLower / TrimSpace / TrimLeftFunc and strconv parsing are modelled axiomatically (T-STD). Spacing-irrelevance (a two-run relation) and 'no earlier closing quote inside a literal' are not covered.",
  "DESIGN.md section 5, C16"),
 "C17": ("proof",
  "errors.go is under contract: outputQueryAndErrPos is proved, for every query text, offset and padding, to render a window of the trimmed query that contains the offset and to place the caret under the byte at that offset of the original query (string theory with sub/at/cat/blen axioms; loop invariants over the padding loops), without any out-of-range slice; Error() of a bound SyntaxError/ExecuteError starts with that rendering; the constructors carry the given position; every SyntaxError of the expression parser carries -1, 0 or a token start (bounded-existential witness).",
  TRUST + "strings.TrimSpace / TrimLeftFunc / fmt.Sprintf are modelled axiomatically (T-STD). Statement-level parser errors, checker and execution-time positions are not yet covered; token positions inside the query are the lexer's contract (C16).",
  "DESIGN.md section 5, C17"),
 "C18": ("proof",
  "Planner tightness and scan confinement: each key-pinning atom yields exactly its documented scan type and literals, AND returns a region inside one operand's region, disjoint operands give EMPTY, Optimize() maps scan types to the matching plan kinds, and the row-mode scan plans are proved to read only keys of their region plus at most the key that ends it (MultiGetPlan: one Get per listed key; EmptyResultPlan: no storage call).",
  TRUST + "Cursor behaviour (Seek to first key >= p, strictly ascending snapshot) is A-STORE. The per-construct statements compose to the property on paper. Batch forms of the scans are not yet under contract.",
  "DESIGN.md section 5, C18"),
 "C13": ("proof",
  "Storage-error typestate and read-only frames: every storage/cursor operation requires that no earlier one failed and records a failure in ghost state; the plan functions under contract are proved to return that error unchanged, to issue no further storage call after it (precondition obligations at every call site), and - for scans, filter and limit plans - to have no mutating call in their frame.",
  TRUST + "Covers the put/remove/delete plans, limit plans, row-mode scans, filter and buildDeletePlan; ProjectionPlan, FinalOrderPlan, AggregatePlan, batch-mode scans and buildPlan are not yet under contract for this property.",
  "DESIGN.md section 5, C13"),
 "C06": ("proof",
  "Panic-freedom of every function that any property puts under contract: one automatically generated obligation per run-time-panic site of the go/ssa form (nil dereference, index / slice bounds, unchecked type assertion, division by zero, nil-map write, negative make, explicit panic), discharged for all inputs from the function's contract; termination where a decreases clause is given.",
  TRUST + "Not the whole-program statement: functions not yet under contract (parser, checker, lexer, scalar functions, order and aggregate plans, error rendering) are outside this check, as are stack depth and standard-library panics. Preconditions are established by callers only where the callers are under contract.",
  "DESIGN.md section 5, C06"),
 "C19": ("other",
  "Frame (ownership) theorem over the whole package, decided syntactically on the go/ssa form: outside init / AddScalarFunction / AddAggrFunction no instruction writes a package-level variable or memory reachable from one (taint fixpoint with interprocedural return / parameter-write summaries). Statements that own their plan, AST and context then share only memory nobody writes, which excludes data races under every schedule; no schedule is explored.",
  "Assumes a thread-safe Storage, no concurrent registration or change of the package switches, and per-statement instances of stdlib objects. Writes performed inside dynamically dispatched callees through a shared ARGUMENT are not followed (writes to globals inside any analysed function are). A lock-protected global would be reported although harmless (stated limit).",
  "DESIGN.md section 5, C19"),
 "C03": ("proof",
  "Twin contracts: the vector forms of the expression evaluator (literals, key/value, !, = != ^= & | > >= < <= + - * /) are proved to return, for every chunk, column and context, exactly the per-row values their row twins were proved to compute (shared documented-meaning predicate), a completed batch implying that every row evaluates; the chunk filter equals the row filter; function calls accept the same argument counts in both forms; the batch scans' chunk-index bookkeeping is proved ascending. Two defects found by failed obligations and repaired (batch arity check of variadic functions, MultiGetPlan.Batch chunk index).",
  TRUST + "Covers the evaluator twins and the scans' bookkeeping; exact result sets of batch scans, projection / order / aggregate batch forms, vector scalar functions and the chunk caches are not covered (listed in evidence). LimitPlan twins are C08.",
  "DESIGN.md section 5, C03"),
 "C04": ("proof",
  "Boolean simplification (tryOptimizeAndOr) is proved value-preserving wherever the original evaluates, for every pair, against the documented short-circuit meaning of & and |; constant folding of a binary node (tryOptimizeBinaryOpExecute) is proved to produce a literal carrying exactly the evaluated value with the same kind (integer / float / text / Boolean).",
  TRUST + "Operator meaning and result kinds are documentation axioms / an assumed contract on BinaryOpExpr.Execute. Re-association (tryReorderBinaryOp), folding of constant function calls and the whole-tree composition are NOT covered: in-place mutation of a tree needs an ownership argument the contract language cannot carry.",
  "DESIGN.md section 0.3 / 5, C04"),
 "C07": ("proof",
  "Order plan: comparators return the sign of the documented order (numeric, byte-wise, false<true, negated for DESC); Less is exactly the lexicographic order over the ORDER BY keys; the heap adapter is exact; every child row is pushed exactly once and popped exactly once (ghost heap size), Next/Batch stop exactly at the end; a lone `order by key asc` is the only elision.",
  TRUST + "Sortedness and permutation of the output additionally rest on T-STD for container/heap (Pop returns a minimum by Less). Mixed-kind columns compare as unordered. The elision relies on C01's scan order.",
  "DESIGN.md section 5, C07"),
 "C09": ("proof",
  "Accumulators and group keys: count, sum, avg, min, max are proved to be left folds in scan order (Update = one step on the converted argument value, unchanged on evaluation failure; Complete = the documented read-out; Clone = fresh initial state); the group key (row and batch path) is the length-prefixed encoding of the rendered group-by values, injective for up to 3 columns (lemmas).",
  TRUST + "The dispatch from group key to row (prepare / prepareBatch, row construction and rendering), group_concat, json_arrayagg and quantile are NOT yet under contract. Floats uninterpreted; cat-cancellation of byte strings is an axiom.",
  "DESIGN.md section 5, C09"),
}

NA_PENDING = "not yet claimed in this session: the contracts for this property are still being written (see DESIGN.md section 5 for the plan)"
NA = {}

props = [json.loads(l)["id"] for l in open("/verif/properties.jsonl")]
hooks = [l.split()[0] for l in subprocess.check_output(["git", "-C", "/repo", "log", "--format=%H %s", "ad11cad..HEAD"]).decode().strip().split("\n") if "verif hook" in l]
m = {
 "version": 1,
 "setup_cmd": "cd /verif/engine && GOFLAGS=-mod=vendor GOPROXY=off GOSUMDB=off GOTOOLCHAIN=local go build -o /verif/bin/kvc ./cmd/kvc",
 "hooks": {"guard": "verif", "enable": "-tags verif (go/packages BuildFlags); the only guarded files are the comment-only contract files /repo/contracts_verif_*.go",
           "baseline_off_cmd": "cd /repo && go test -mod=mod -vet=off -count=1 ./...", "source_commits": hooks, "add_only": True},
 "engines": [{"name": "kvc", "path": "/verif/engine", "serves_properties": sorted(CLAIMS),
              "kind_free_text": "contract-based deductive verifier for Go: go/ssa (naive form) of the real package -> weakest-precondition style VCs -> z3 / z3-new / cvc5; counterexamples replayed on the real code via go test -overlay"}],
 "checks": [], "not_applicable": [],
 "notes": "See DESIGN.md. Contracts live in /repo/contracts_verif_*.go (mirror: /verif/contracts). Defects found and repaired are listed in known_findings.json.",
}
for p in sorted(CLAIMS):
    lvl, text, note, ref = CLAIMS[p]
    m["checks"].append({
        "property_id": p, "quick_cmd": f"/verif/bin/kvc check {p} --tier quick", "thorough_cmd": f"/verif/bin/kvc check {p} --tier thorough",
        "evidence_file": f"/verif/evidence/{p}.json", "replay_cmd_template": "/verif/bin/kvc replay {path}", "engine": "kvc",
        "level_claimed": {"category": lvl, "text": text, "design_ref": ref}, "level_note": note, "technique": TECH})
for p in props:
    if p not in CLAIMS:
        m["not_applicable"].append({"property_id": p, "reason": NA.get(p, NA_PENDING)})
json.dump(m, open("/verif/MANIFEST.json", "w"), indent=1)
print("claimed:", sorted(CLAIMS), "hooks:", len(hooks))
