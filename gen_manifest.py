#!/usr/bin/env python3
"""Regenerates /verif/MANIFEST.json from the table below (run after registering a check)."""
import json, subprocess

TECH = "contract-based deductive verification (pre/postconditions, loop invariants, frames, ghost state over go/ssa; weakest-precondition VCs discharged by z3 / cvc5)"
TRUST = "Trusted: go/ssa translation, the engine's VC generation (exercised by the must-fail corpus), the SMT solvers, the byte-string axioms; integers are mathematical. "

CLAIMS = {
 "C02": ("proof",
  "Every function of filter_optimizer.go carries a contract stating that the key region of its result covers every key on which the predicate can hold (ghost key, documented operator semantics as oracle); the obligations are generated from the go/ssa form of the working tree on every run and discharged by SMT for all predicate trees, literals and keys, without bound.",
  TRUST + "The sem_* oracle axioms are transcribed from the README. The link from scan type to the keys a plan actually reads is the subject of C18/C01, not of this check.",
  "DESIGN.md section 5, C02"),
 "C01": ("proof",
  "The evaluator (BinaryOpExpr.Execute and its helpers incl. regexp match, IN over literal lists, BETWEEN; NotExpr, literals, key/value, utils.go coercions) is proved to compute the documented meaning of = != ^= ~= & | > >= < <= + - * / ! in between from the values of the operands, with exact definedness conditions; Filter is proved to return `evaluates to true`; the four scan plans are proved, in row mode and in batch mode, to return exactly the filter-passing pairs of the cursor segment they consume, in cursor order, with their stored values, to skip only pairs that fail the filter, and to report the end only when the region is exhausted; NewMultiGetPlan sorts and de-duplicates the listed keys. 43 functions; obligations from the go/ssa form of the working tree, discharged by z3 / cvc5.",
  TRUST + "Scalar functions and field access are C10; element values of function-valued IN lists, float BETWEEN bounds (kinds only) and the value of text concatenation are not modelled. MultiGetPlan.Batch is proved sound (only stored, listed, passing pairs; every listed key read before a short batch) but not complete for absent keys. Evaluation is a function of expression and pair (A-EVAL); cursor behaviour is A-STORE; regexp is T-STD. Composition over calls is argued on paper.",
  "DESIGN.md section 5, C01"),
 "C05": ("proof",
  "An alias reference is proved to evaluate exactly as its defining expression for every pair, cache content and cache switch; the per-row cache is proved invisible through a coherence invariant (every entry is the value of its alias on the current pair) that Expression.Execute requires and preserves through the whole row evaluator, that the row-mode scans establish for every pair before filtering it (failed on the pinned tree: defect D5, repaired) and that projection, LimitPlan.Next, the accumulators and AggregatePlan.prepare / prepareBatch / getAggrKey rely on. Batch mode: the per-chunk cache (key format name-firstkey, FieldReferenceExpr.ExecuteBatch, Get/Set/AppendChunkFieldResult, AdjustChunkCache, Clear) is proved coherent and apart from result arrays through all vector evaluators, established per filter round in the three cursor scans, with a typestate (no per-chunk key entries between scan batches). 90 functions.",
  TRUST + "Alias names contain no dash (axiom on the key format); final-result columns rest on the interface clauses finalcols / colsok; MultiGetPlan.Batch and the registered vector function bodies are covered by interface / function-type clauses only; aliases in ORDER BY are not covered. That every reference points at the select field of its name (A-ALIAS) and that evaluation is a function of expression and pair (A-EVAL) are assumptions. The thorough tier adds bounded alias-vs-expansion stand-ins.",
  "DESIGN.md section 5, C05"),
 "C08": ("proof",
  "LimitPlan and FinalLimitPlan (Init, Next, Batch) are proved, for every offset, count, result size, symbolic batch size and every split of the child's output into batches, to return exactly the next rows Start+current.. of the child's ghost output sequence, to stop at Count or at the child's end, and to maintain the object invariant that makes the per-call statement compose over calls.",
  TRUST + "The child is represented by the Plan/FinalPlan interface contract (ghost sequence, any batch split). Composition over calls is an induction argued on paper with the machine-checked object invariant as hypothesis. The plan wiring (buildFinalPlan, buildFinalLimitPlan, the LimitPlan of buildDeletePlan, the limit half of AggregatePlan.Next/Batch) is under contract; parseLimit is under contract for the two documented forms (`limit n`: Start 0, Count n; `limit s, n`: Start s, Count n; numbers are the tokens' decimal values).",
  "DESIGN.md section 5, C08"),
 "C10": ("proof",
  "The scalar functions are under contract against their one-line descriptions, row and vector forms: value coercions (decimal rendering and reading), str / int / float / is_int / is_float / strlen, substr (clamped byte range), len and [n] over every list representation, int_list / float_list / list keeping argument order, split (provenance of strings.Split) and join (strings.Join of the renderings), distances refusing unequal lengths. 32 functions; defects found by failed obligations and repaired (substr panic, len and indexing refusing list kinds, list() vector form).",
  TRUST + "upper / lower (case mapping), the elements of split's result, json parsing and the numeric values of the distances rest on standard-library behaviour or uninterpreted floats and are not covered.",
  "DESIGN.md section 5, C10"),
 "C11": ("proof",
  "DeletePlan (execute, Init, Next, Batch) is proved to drain its child's ghost output sequence, to hand exactly the keys of each batch - and nothing else - to BatchDelete, to delete as many keys as rows were drained, to issue no Put/BatchPut/Delete, and to execute once; buildDeletePlan / buildScanPlan wire scan, optional LimitPlan and DeletePlan, and the DELETE -> REMOVE shortcut is proved to be taken only for a multi-get scan without LIMIT whose filter contains no AND (Walk client under contract), removing exactly the listed keys. 21 functions.",
  TRUST + "Storage behaviour (A-STORE) and the child's interface contract are assumptions; that the child sequence equals what the corresponding SELECT returns is composition with C01/C02/C08 (paper step).",
  "DESIGN.md section 5, C11"),
 "C12": ("proof",
  "PutPlan and RemovePlan are proved: pairs/keys are the evaluated expressions (a value sees its own evaluated key), nothing is written before every expression has evaluated, exactly one storage call with the pairs in order is issued on success, none on failure, and polling a finished plan issues nothing.",
  TRUST + "Expression.Execute is assumed to be a function of expression and pair (interface contract); Put/BatchPut/Delete/BatchDelete semantics are A-STORE. Parser/validators for PUT and REMOVE are not yet under contract.",
  "DESIGN.md section 5, C12"),
 "C14": ("proof",
  "checker.go is under contract: each operator's operand rule is a postcondition of its checkWith* function (stated over the static result types of the operands), and a ghost mark proves that a successful Check of any node implies a successful Check of every operand, list item, argument and field-access operand below it, with the in-place alias rewriting modelled exactly (element-level frames) and guarded against circular references (a name is resolved only when its field's definition does not contain the referencing expression: defect D10, repaired); Check returns only SyntaxError values; a successful Check under a context that forbids `key` / `value` means the keyword occurs nowhere in the expression (usesKw, defined by unfolding), and the PUT / REMOVE / DELETE statement validators are proved to check every key / value expression with the right restrictions and kinds (defect D30 found and repaired: `key` was accepted in the key expression of a put pair). 26 functions and lemmas, obligations generated from the working tree's go/ssa form on every run and discharged by z3 / cvc5.",
  TRUST + "Known finding D13 (unknown function / wrong argument count accepted at build time; pinned by the existing tests, not repaired) is listed in known_findings.json. The converse direction (allowed statements are accepted and never raise operand-type errors), the flags chosen by parsePut / parseRemove and the non-Boolean WHERE test of Parse are not covered. Static result types are a specification function (A-RTYPE).",
  "DESIGN.md section 5, C14"),
 "C15": ("proof",
  "The recursive-descent expression parser is under contract: Token.Precedence and BuildOp are proved equal to the documented operator table, and parseBinaryExpr and its eleven helpers are proved, for every token sequence, to build only binary nodes whose left operand binds at least as strongly and whose right operand binds strictly more strongly than the node's operator (ghost binding level, parentheses / calls / indexes / lists at the top level), to stop exactly in front of a weaker operator, and to parse BETWEEN bounds above the comparison level. The twelve String methods of expression.go are proved to return the canonical fully parenthesised rendering (one defining axiom per node kind; fmt.Sprintf with %s-only formats and strings.Join modelled exactly). 26 functions; obligations generated from the go/ssa form of the working tree on every run and discharged by z3 / cvc5.",
  TRUST + "Covers the binding-strength / associativity half of the property. The String()/re-parse round trip of whole trees is not proved (no contract expresses it without a grammar-level specification); the thorough tier adds a bounded stand-in for it (every operator chain of length <= 4 and 30 000 random trees printed three ways and in random letter case, labelled bounded in the evidence, never counted as proved). The ghost level is maintained by ghost statements in the contract file.",
  "DESIGN.md section 5, C15"),
 "C16": ("proof",
  "lexer.go is under contract: Lexer.Split is proved, for every query string, to emit only tokens whose offset and text are exactly (or, for words, the lower-case form of) the query bytes they stand for, quoted literals being the bytes between their two quote characters; buildToken's classification equals the documented keyword / number / float / name table. Scanner-state loop invariant, one obligation per append site, per-path invariant preservation; string theory with sub/at/cat/blen axioms; discharged by z3 / cvc5.",
  TRUST + "strings.ToLower / TrimSpace / TrimLeftFunc and strconv parsing are modelled axiomatically (T-STD). Spacing-irrelevance is a relation between two runs and is not proved; the thorough tier adds a bounded stand-in for it (every sequence of at most four tokens from a pool of 20 with every choice of optional spacing, labelled bounded in the evidence). 'No earlier closing quote inside a literal' is not covered.",
  "DESIGN.md section 5, C16"),
 "C17": ("proof",
  "errors.go is under contract: outputQueryAndErrPos is proved, for every query text, offset and padding, to render a window of the trimmed query that contains the offset and to place the caret under the byte at that offset of the original query (string theory with sub/at/cat/blen axioms; loop invariants over the padding loops), without any out-of-range slice; Error() of a bound SyntaxError/ExecuteError starts with that rendering; the constructors carry the given position; every SyntaxError of the expression parser and of parseLimit carries -1, 0 or a token start (bounded-existential witness).",
  TRUST + "strings.TrimSpace / TrimLeftFunc / fmt.Sprintf are modelled axiomatically (T-STD). Statement-level parser errors, checker and execution-time positions are not yet covered; token positions inside the query are the lexer's contract (C16).",
  "DESIGN.md section 5, C17"),
 "C18": ("proof",
  "Planner tightness and scan confinement: each key-pinning atom yields exactly its documented scan type and literals, AND returns a region inside one operand's region, disjoint operands give EMPTY, Optimize() maps scan types to the matching plan kinds, and the scan plans are proved, in row mode and in batch mode, to read only keys of their region plus at most the key that ends it (MultiGetPlan: one Get per listed key; EmptyResultPlan: no storage call). 37 functions.",
  TRUST + "Cursor behaviour (Seek to first key >= p, strictly ascending snapshot) is A-STORE. The per-construct statements compose to the property on paper.",
  "DESIGN.md section 5, C18"),
 "C13": ("proof",
  "Storage-error typestate and read-only frames: every storage/cursor operation requires that no earlier one failed and records a failure in ghost state; the plan functions under contract - put / remove / delete plans, limit plans, row-mode and batch-mode scans, filter, projection (Next / Batch), FinalOrderPlan, AggregatePlan.prepare / prepareBatch, and the plan builders buildPlan / BuildPlan / buildSelectPlan / buildFinalPlan / buildDeletePlan - are proved to return that error unchanged, to issue no further storage call after it (precondition obligations at every call site), and, for everything a SELECT is made of, to have no mutating call in their frame; a rejected statement touches nothing because the builders issue no storage call before Init. 54 functions.",
  TRUST + "AggregatePlan.Next / Batch above prepare are covered through the thin contracts of next() / batch(). Storage behaviour is A-STORE.",
  "DESIGN.md section 5, C13"),
 "C06": ("proof",
  "Panic-freedom of every function that any property puts under contract (about 290 of the package's 479 declared functions and methods: evaluator in both modes, scans, projection / order / aggregate / limit / write plans, planner, checker, expression parser, lexer, error rendering, scalar functions, String methods): one automatically generated obligation per run-time-panic site of the go/ssa form (nil dereference, index / slice bounds, unchecked type assertion, division by zero, nil-map write, negative make, explicit panic, modelled standard-library panics), discharged for all inputs from the function's contract, plus the untagged call-site preconditions those contracts rest on and the clauses tagged C06 (no circular alias reference is ever created: defect D10, repaired).",
  TRUST + "Not the whole-program statement: the statement-level parser functions (parseSelect, parseLimit, parsePut, ...), the plans' Explain / String methods and trivial accessors, quantile, json helpers and some registered vector bodies are outside this check, as are stack depth in general, termination of loops without a decreases clause and standard-library panics that are not modelled. Preconditions are established by callers only where the callers are under contract.",
  "DESIGN.md section 5, C06"),
 "C19": ("other",
  "Frame (ownership) theorem over the whole package, decided syntactically on the go/ssa form: outside init / AddScalarFunction / AddAggrFunction no instruction writes a package-level variable or memory reachable from one (taint fixpoint with interprocedural return / parameter-write summaries); no function hands out shared objects of a type the exported API writes through; every in-place append to a []byte targets a buffer the function owns. Statements that own their plan, AST and context then share only memory nobody writes, which excludes data races under every schedule; no schedule is explored.",
  "Assumes a thread-safe Storage, no concurrent registration or change of the package switches, and per-statement instances of stdlib objects. Writes performed inside dynamically dispatched callees through a shared ARGUMENT are not followed (writes to globals inside any analysed function are). A lock-protected global would be reported although harmless (stated limit).",
  "DESIGN.md section 5, C19"),
 "C03": ("proof",
  "Twin contracts: the vector forms of the expression evaluator (literals, key/value, !, = != ^= ~= & | > >= < <= + - * / in between, text concatenation) are proved to return, for every chunk, column and context, exactly the per-row values their row twins were proved to compute (shared documented-meaning predicate), a completed batch implying that every row evaluates; the chunk filter equals the row filter; function calls accept the same argument counts in both forms and the vector forms of the scalar functions under contract equal their row forms; the four batch scans return exactly the filter-passing pairs of the segment they consume (chunk-index bookkeeping ascending, MultiGetPlan.Batch leaves no per-chunk key entries); batch projection returns one row per child pair and one column per field. 49 functions. Defects found by failed obligations and repaired: batch arity check of variadic functions, MultiGetPlan.Batch chunk index, BETWEEN / IN twins, list() vector form, stale per-chunk key caches.",
  TRUST + "Order and aggregate-rendering batch forms are not covered; final-result columns of the projection rest on the interface clauses finalcols / colsok (assumptions about the children). LimitPlan twins are C08. The thorough tier adds a bounded row-vs-batch differential stand-in (labelled bounded, never counted as proved).",
  "DESIGN.md section 5, C03"),
 "C04": ("proof",
  "Boolean simplification (tryOptimizeAndOr) is proved value-preserving wherever the original evaluates, for every pair, against the documented short-circuit meaning of & and |; constant folding of a binary node (tryOptimizeBinaryOpExecute) is proved to produce a literal carrying exactly the evaluated value with the same kind (integer / float / text / Boolean).",
  TRUST + "Operator meaning and result kinds are documentation axioms / an assumed contract on BinaryOpExpr.Execute. Re-association (tryReorderBinaryOp), folding of constant function calls and the whole-tree composition are NOT covered: in-place mutation of a tree needs an ownership argument the contract language cannot carry.",
  "DESIGN.md section 0.3 / 5, C04"),
 "C07": ("proof",
  "Order plan: comparators return the sign of the documented order (numeric, byte-wise, false<true, negated for DESC); Less is exactly the lexicographic order over the ORDER BY keys; the heap adapter is exact; every child row is pushed exactly once and popped exactly once (ghost heap size), Next/Batch stop exactly at the end; a lone `order by key asc` is the only elision.",
  TRUST + "Sortedness and permutation of the output additionally rest on T-STD for container/heap (Pop returns a minimum by Less). Mixed-kind columns compare as unordered. The elision relies on C01's scan order.",
  "DESIGN.md section 5, C07"),
 "C09": ("proof",
  "Accumulators and group keys: count, sum, avg, min, max, group_concat and json_arrayagg are proved to be left folds in scan order (Update = one step on the converted argument value, unchanged on evaluation failure; Complete = the documented read-out; Clone = fresh initial state); the group key (row and batch path) is the length-prefixed encoding of the rendered group-by values, injective for up to 3 columns and per value kind (lemmas; floats rendered with %v since the D28 repair); AggregatePlan.prepare / prepareBatch dispatch every pair to the row of its key, create that row on first sight and update each accumulator once; buildFinalPlan wires GROUP BY / aggregate statements to the AggregatePlan. 35 functions and lemmas.",
  TRUST + "Row construction (createAggrRow / updateRowAggrFunc: thin trusted contracts), rendering of aggregate rows (the Result memo of call nodes breaks A-EVAL), quantile and the global `one row per key` statement over all batches are not covered by proof; the thorough tier adds a bounded stand-in against hand-computed aggregates. Floats uninterpreted; cat-cancellation of byte strings is an axiom.",
  "DESIGN.md section 5, C09"),
}

NA_PENDING = "not yet claimed in this session: the contracts for this property are still being written (see DESIGN.md section 5 for the plan)"
NA = {}

props = [json.loads(l)["id"] for l in open("/verif/properties.jsonl")]
hooks = [l.split()[0] for l in subprocess.check_output(["git", "-C", "/repo", "log", "--format=%H %s", "ad11cad..HEAD"]).decode().strip().split("\n") if "verif hook" in l]
m = {
 "version": 1,
 "setup_cmd": "cd /verif/engine && GOFLAGS=-mod=vendor GOPROXY=off GOSUMDB=off GOTOOLCHAIN=local go build -o /verif/bin/kvc ./cmd/kvc",
 "hooks": {"guard": "verif", "enable": "-tags verif (go/packages BuildFlags); the only guarded files are the comment-only contract files /repo/contracts_verif_*.go",
           "baseline_off_cmd": "cd /repo && go test -mod=mod -vet=off -count=1 ./...", "source_commits": hooks, "add_only": True},
 "engines": [{"name": "kvc", "path": "/verif/engine", "serves_properties": sorted(CLAIMS),
              "kind_free_text": "contract-based deductive verifier for Go: go/ssa (naive form) of the real package -> weakest-precondition style VCs -> z3 / z3-new / cvc5; counterexamples replayed on the real code via go test -overlay"}],
 "checks": [], "not_applicable": [],
 "notes": "See DESIGN.md. Contracts live in /repo/contracts_verif_*.go (mirror: /verif/contracts). Defects found and repaired are listed in known_findings.json.",
}
for p in sorted(CLAIMS):
    lvl, text, note, ref = CLAIMS[p]
    m["checks"].append({
        "property_id": p, "quick_cmd": f"/verif/bin/kvc check {p} --tier quick", "thorough_cmd": f"/verif/bin/kvc check {p} --tier thorough",
        "evidence_file": f"/verif/evidence/{p}.json", "replay_cmd_template": "/verif/bin/kvc replay {path}", "engine": "kvc",
        "level_claimed": {"category": lvl, "text": text, "design_ref": ref}, "level_note": note, "technique": TECH})
for p in props:
    if p not in CLAIMS:
        m["not_applicable"].append({"property_id": p, "reason": NA.get(p, NA_PENDING)})
json.dump(m, open("/verif/MANIFEST.json", "w"), indent=1)
print("claimed:", sorted(CLAIMS), "hooks:", len(hooks))
