#!/bin/bash
# full quick-tier regression; prints one line per property
cd /verif
for i in 01 02 03 04 05 06 07 08 09 10 11 12 13 14 15 16 17 18 19; do
  bin/kvc check C$i 2>&1 | grep -E "^VIOLATION|^C[0-9]+:|ENGINE-ERROR|KNOWN-FINDING" 
done
echo REGRESS-DONE
