; Definitional axioms of spec functions over byte strings used by the contracts.
; spaces(n): the string of n blanks (errors.go renders padding and caret lines with it).
; sig: spaces(Int) B
(declare-fun spaces (Int) B)
(assert (= (spaces 0) eps))
(assert (forall ((n Int)) (! (=> (>= n 0) (= (blen (spaces n)) n)) :pattern ((spaces n)))))
(assert (forall ((n Int)) (! (=> (>= n 0) (= (cat (spaces n) (chr 32)) (spaces (+ n 1)))) :pattern ((spaces n)))))
(assert (forall ((n Int) (k Int)) (! (=> (and (<= 0 k) (< k n)) (= (at (spaces n) k) 32)) :pattern ((at (spaces n) k)))))
