#!/bin/bash
# Engine canaries: a tiny package with deliberately wrong and right contracts (selftest/canary).
# Every function marked "fail <obligation-substring>" must have that obligation undischarged,
# every function marked "pass" must verify completely.
cd /verif/selftest/canary
bad=0
fns=$(awk '{print $1}' EXPECT)
out=$(KVC_REPO=/verif/selftest/canary KVC_CONTRACTS=repo /verif/bin/kvc verify -t 4 $fns 2>&1)
while read -r fn want ob; do
  line=$(echo "$out" | grep -F "$fn " | grep -E "^[^ ]+ +[0-9]+/[0-9]+ discharged")
  a=$(echo "$line" | sed -E 's/.* ([0-9]+)\/([0-9]+) discharged.*/\1/'); b=$(echo "$line" | sed -E 's/.* ([0-9]+)\/([0-9]+) discharged.*/\2/')
  if [ -z "$line" ]; then echo "DIFF  $fn: no result"; bad=1; continue; fi
  if [ "$want" = pass ]; then
    if [ "$a" = "$b" ]; then echo "ok    $fn verifies ($a/$b)"; else echo "DIFF  $fn should verify ($a/$b)"; bad=1; fi
  else
    if echo "$out" | grep -F "FAIL $fn$ob" >/dev/null; then echo "ok    $fn fails at $ob"; else echo "DIFF  $fn should fail at $ob ($a/$b)"; bad=1; fi
  fi
done < EXPECT
exit $bad
