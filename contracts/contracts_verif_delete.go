//go:build verif

package kvql

// Contracts for delete_plan.go (properties C11, C13). Comment-only.
//
// The child plan's output is the ghost sequence pseq(child, ·), fixed at Init
// (snapshot cursors). execute() drains it in batches and hands the keys of each
// batch, and nothing else, to BatchDelete.

//@ define wfDelete(p *DeletePlan) Bool = p != nil && p.ChildPlan != nil && p.Storage != nil && wfCursor(p.ChildPlan)
//
//@ func (p *DeletePlan) execute(ctx *ExecuteCtx) (n int, err error)
//@   props C11 C13
//@   requires wfDelete(p) && ctx != nil && !failed
//@   assigns pcur(p.ChildPlan), nops, nmut, nbdel, ndelkeys, failed, lastErr, lastOp, lastKeys, ctx.Hit, mapof(ctx.FieldCaches), mapof(ctx.FieldChunkKeyCaches), mapof(ctx.FieldChunkCaches)
//@   ensures[C11] drained: err == nil ==> pcur(p.ChildPlan) == plen(p.ChildPlan)
//@   ensures[C11] counted: n == pcur(p.ChildPlan) - old(pcur(p.ChildPlan)) || (failed && n <= pcur(p.ChildPlan) - old(pcur(p.ChildPlan)))
//@   ensures[C11] keys: err == nil ==> ndelkeys == old(ndelkeys) + n
//@   ensures[C11] batch: nbdel != old(nbdel) ==> lastOp == 4 && len(lastKeys) <= pcur(p.ChildPlan) && (forall j Int :: 0 <= j && j < len(lastKeys) ==> val(lastKeys[j]) == val(pseq(p.ChildPlan, pcur(p.ChildPlan) - len(lastKeys) + j).Key))
//@   ensures[C13] surfaced: (failed ==> err == lastErr) && (err == nil ==> !failed)
//@   loop 0
//@     invariant st: wfCursor(p.ChildPlan) && !failed && count == pcur(p.ChildPlan) - old(pcur(p.ChildPlan)) && ndelkeys == old(ndelkeys) + count
//@     invariant batch: nbdel != old(nbdel) ==> lastOp == 4 && len(lastKeys) <= pcur(p.ChildPlan) && (forall j Int :: 0 <= j && j < len(lastKeys) ==> val(lastKeys[j]) == val(pseq(p.ChildPlan, pcur(p.ChildPlan) - len(lastKeys) + j).Key))
//@   loop 1 (kv)
//@     invariant copied: forall j Int :: 0 <= j && j <= rangeindex ==> val(keys[j]) == val(rows[j].Key)
//@     invariant shape: len(keys) == len(rows) && ptr(keys) != ptr(rows)
//
//@ func (p *DeletePlan) Init() (err error)
//@   props C11 C13
//@   requires p != nil && p.ChildPlan != nil && !failed
//@   assigns p.executed, pcur(p.ChildPlan), nops, failed, lastErr
//@   ensures[C11] reset: !p.executed && (err == nil ==> pcur(p.ChildPlan) == 0 && plen(p.ChildPlan) >= 0)
//@   ensures[C13] surfaced: failed ==> err == lastErr
//
//@ func (p *DeletePlan) Next(ctx *ExecuteCtx) (row []Column, err error)
//@   props C11 C13
//@   requires wfDelete(p) && ctx != nil && (p.executed || !failed)
//@   assigns p.executed, pcur(p.ChildPlan), nops, nmut, nbdel, ndelkeys, failed, lastErr, lastOp, lastKeys, ctx.Hit, mapof(ctx.FieldCaches), mapof(ctx.FieldChunkKeyCaches), mapof(ctx.FieldChunkCaches)
//@   ensures[C11] once: old(p.executed) ==> nmut == old(nmut) && nops == old(nops) && isnil(row) && err == nil
//@   ensures[C11] done: p.executed
//@   ensures[C11] drained: !old(p.executed) && err == nil ==> pcur(p.ChildPlan) == plen(p.ChildPlan) && ndelkeys == old(ndelkeys) + pcur(p.ChildPlan) - old(pcur(p.ChildPlan))
//@   ensures[C13] surfaced: !old(p.executed) && failed ==> err == lastErr
//
//@ func (p *DeletePlan) Batch(ctx *ExecuteCtx) (rows [][]Column, err error)
//@   props C11 C13
//@   requires wfDelete(p) && ctx != nil && (p.executed || !failed)
//@   assigns p.executed, pcur(p.ChildPlan), nops, nmut, nbdel, ndelkeys, failed, lastErr, lastOp, lastKeys, ctx.Hit, mapof(ctx.FieldCaches), mapof(ctx.FieldChunkKeyCaches), mapof(ctx.FieldChunkCaches)
//@   ensures[C11] once: old(p.executed) ==> nmut == old(nmut) && nops == old(nops) && isnil(rows) && err == nil
//@   ensures[C11] done: p.executed
//@   ensures[C11] drained: !old(p.executed) && err == nil ==> pcur(p.ChildPlan) == plen(p.ChildPlan) && ndelkeys == old(ndelkeys) + pcur(p.ChildPlan) - old(pcur(p.ChildPlan))
//@   ensures[C13] surfaced: !old(p.executed) && failed ==> err == lastErr
