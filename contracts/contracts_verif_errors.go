//go:build verif

package kvql

// Contracts for errors.go (property C17; the constructors also serve C14/C15/C06).
// Comment-only.
//
// Positional errors: the position given to the constructor is the position carried.
//@ func NewSyntaxError(pos int, msg string, args ...any) (err error)
//@   props C17
//@   assigns nothing
//@   ensures[C17] carries: err != nil && fresh(err) && is(err, *SyntaxError) && as(err, *SyntaxError).Pos == pos && as(err, *SyntaxError).Padding == DefaultErrorPadding && val(as(err, *SyntaxError).Query) == ""
//
//@ func NewExecuteError(pos int, msg string, args ...any) (err error)
//@   props C17
//@   assigns nothing
//@   ensures[C17] carries: err != nil && fresh(err) && is(err, *ExecuteError) && as(err, *ExecuteError).Pos == pos && as(err, *ExecuteError).Padding == DefaultErrorPadding && val(as(err, *ExecuteError).Query) == ""
//
//@ func generatePads(pad int) (ret string)
//@   props C17
//@   assigns nothing
//@   ensures[C17] blanks: pad >= 0 ==> val(ret) == spaces(pad)
//@   loop 0
//@     invariant 0 <= i && (pad >= 0 ==> i <= pad) && val(ret) == spaces(i)
//
// Rendering of the query window and the caret line (how wide the window is and where it is
// cut is the code's choice; the property is that the shown stretch is a piece of the query that
// contains the offset and that the caret stands under the character at the offset).
//   q       the query without surrounding white space; lead = bytes of leading white space
//   p1      the offset relative to q (-1 = end of input; offsets inside the trimmed-away white
//           space are clamped to the nearest end of q)
//   witnesses taken from the function's final state: the shown text T (local tquery), the cut
//   marks, the caret column errPos, and the start F = p1 - (final pos) of T inside q
//@ define qOf(query string) B = trim(val(query))
//@ define p1Of(query string, pos int) Int = ite(pos == -1, blen(qOf(query)), ite(pos - lead(val(query)) < 0, 0, ite(pos - lead(val(query)) > blen(qOf(query)), blen(qOf(query)), pos - lead(val(query)))))
//@ define markL(b bool) B = ite(b, "... ", "")
//@ define markR(b bool) B = ite(b, " ...", "")
//@ define lineOf(l bool, t string, r bool) B = cat(cat(markL(l), val(t)), markR(r))
//
// render names the result of outputQueryAndErrPos (a function of its arguments: it reads no memory).
//@ specfun render(B, Int, Int) B
//@ func outputQueryAndErrPos(query string, pos int, adjust int) (ret string)
//@   props C17
//@   defines val(ret) == render(val(query), pos, adjust)
//@   requires adjust >= 0
//@   assigns nothing
//@   ensures[C17] shape: val(ret) == cat(cat(cat(lineOf(local(trimLeft), local(tquery), local(trimRight)), "\n"), spaces(local(errPos))), "^--\n") && local(errPos) >= adjust
//@   ensures[C17] stretch: 0 <= p1Of(query, pos) - local(pos) && p1Of(query, pos) - local(pos) + len(local(tquery)) <= blen(qOf(query)) && val(local(tquery)) == sub(qOf(query), p1Of(query, pos) - local(pos), p1Of(query, pos) - local(pos) + len(local(tquery))) && 0 <= local(pos) && local(pos) <= len(local(tquery)) && (blen(qOf(query)) > 0 ==> len(local(tquery)) > 0)
//@   ensures[C17] under: lead(val(query)) <= pos && pos < lead(val(query)) + blen(qOf(query)) ==> local(errPos) - adjust < blen(lineOf(local(trimLeft), local(tquery), local(trimRight))) && at(lineOf(local(trimLeft), local(tquery), local(trimRight)), local(errPos) - adjust) == at(val(query), pos)
//@   ensures[C17] eof: pos == -1 ==> local(errPos) - adjust == blen(markL(local(trimLeft))) + len(local(tquery)) && p1Of(query, pos) - local(pos) + len(local(tquery)) == blen(qOf(query))
//@   loop 0
//@     invariant 0 <= i && i <= errPos && val(ret) == cat(cat(lineOf(trimLeft, tquery, trimRight), "\n"), spaces(i))
//
// The bound message starts with the rendering of the window and caret for the carried offset.
//@ define rendering(query string, pos int, adjust int) B = render(val(query), pos, adjust)
//
//@ func (e *SyntaxError) queryError() (ret string)
//@   props C17
//@   requires e != nil && e.Padding >= 0
//@   assigns nothing
//@   ensures[C17] starts: pre(rendering(e.Query, e.Pos, e.Padding), val(ret))
//
//@ func (e *SyntaxError) Error() (ret string)
//@   props C17
//@   requires e != nil && e.Padding >= 0
//@   assigns nothing
//@   ensures[C17] bound: val(e.Query) != "" ==> pre(rendering(e.Query, e.Pos, e.Padding), val(ret))
//
//@ func (e *ExecuteError) queryError() (ret string)
//@   props C17
//@   requires e != nil && e.Padding >= 0
//@   assigns nothing
//@   ensures[C17] starts: pre(rendering(e.Query, e.Pos, e.Padding), val(ret))
//
//@ func (e *ExecuteError) Error() (ret string)
//@   props C17
//@   requires e != nil && e.Padding >= 0
//@   assigns nothing
//@   ensures[C17] bound: val(e.Query) != "" ==> pre(rendering(e.Query, e.Pos, e.Padding), val(ret))
//
//@ func (e *SyntaxError) BindQuery(query string)
//@   props C17
//@   requires e != nil
//@   assigns e.Query
//@   ensures[C17] bound: e.Query == query
//
//@ func (e *ExecuteError) BindQuery(query string)
//@   props C17
//@   requires e != nil
//@   assigns e.Query
//@   ensures[C17] bound: e.Query == query
