//go:build verif

package kvql

// Interface contracts for kv.go (Storage, Cursor) and for Expression.Execute,
// with the ghost state the plan contracts are written against. Comment-only.
//
// Ghost state (A-STORE: what the storage is assumed to do is stated here, and is
// a hypothesis of the properties, not a fact about kvql):
//   nops     number of storage / cursor operations issued so far
//   nmut     number of mutating operations (Put, BatchPut, Delete, BatchDelete) issued so far
//   nput / nbput / ndel / nbdel   the same per kind; ndelkeys = total number of keys handed to BatchDelete
//   failed   some storage operation has returned an error; lastErr is that error
//   lastOp   the last mutating operation: 1 Put, 2 BatchPut, 3 Delete, 4 BatchDelete,
//            with its arguments in lastKey / lastVal / lastKVs / lastKeys
// "requires !failed" on every operation is the typestate of C13: once an
// operation has failed, issuing another one violates a precondition.

//@ ghostvar nops Int
//@ ghostvar nmut Int
//@ ghostvar nput Int
//@ ghostvar nbput Int
//@ ghostvar ndel Int
//@ ghostvar nbdel Int
//@ ghostvar ndelkeys Int
//@ ghostvar failed Bool
//@ ghostvar lastErr Int
//@ ghostvar lastOp Int
//@ ghostvar lastKey B
//@ ghostvar lastVal B
//@ ghostvar lastKVs []KVPair
//@ ghostvar lastKeys [][]byte
//
// evalok / evalv: the outcome of evaluating an expression on a pair (A-EVAL:
// evaluation is a function of the expression and the pair's key and value).
//@ specfun evalok(Int, B, B) Bool
//@ specfun evalv(Int, B, B) Any
//
//@ iface (s Storage) Put(key []byte, value []byte) (err error)
//@   requires nofail: !failed
//@   assigns nops, nmut, nput, failed, lastErr, lastOp, lastKey, lastVal
//@   ensures nops == old(nops) + 1 && nmut == old(nmut) + 1 && nput == old(nput) + 1
//@   ensures lastOp == 1 && lastKey == val(key) && lastVal == val(value)
//@   ensures (err != nil ==> failed && lastErr == err) && (err == nil ==> !failed)
//
//@ iface (s Storage) BatchPut(kvs []KVPair) (err error)
//@   requires nofail: !failed
//@   assigns nops, nmut, nbput, failed, lastErr, lastOp, lastKVs
//@   ensures nops == old(nops) + 1 && nmut == old(nmut) + 1 && nbput == old(nbput) + 1
//@   ensures lastOp == 2 && lastKVs == kvs
//@   ensures (err != nil ==> failed && lastErr == err) && (err == nil ==> !failed)
//
//@ iface (s Storage) Delete(key []byte) (err error)
//@   requires nofail: !failed
//@   assigns nops, nmut, ndel, failed, lastErr, lastOp, lastKey
//@   ensures nops == old(nops) + 1 && nmut == old(nmut) + 1 && ndel == old(ndel) + 1
//@   ensures lastOp == 3 && lastKey == val(key)
//@   ensures (err != nil ==> failed && lastErr == err) && (err == nil ==> !failed)
//
//@ iface (s Storage) BatchDelete(keys [][]byte) (err error)
//@   requires nofail: !failed
//@   assigns nops, nmut, nbdel, ndelkeys, failed, lastErr, lastOp, lastKeys
//@   ensures nops == old(nops) + 1 && nmut == old(nmut) + 1 && nbdel == old(nbdel) + 1 && ndelkeys == old(ndelkeys) + len(keys)
//@   ensures lastOp == 4 && lastKeys == keys
//@   ensures (err != nil ==> failed && lastErr == err) && (err == nil ==> !failed)
//
//@ iface (e Expression) Execute(kv KVPair, ctx *ExecuteCtx) (result any, err error)
//@   assigns ctx.Hit, mapof(ctx.FieldCaches)
//@   ensures (err == nil) == evalok(e, val(kv.Key), val(kv.Value))
//@   ensures err == nil ==> result == evalv(e, val(kv.Key), val(kv.Value))
