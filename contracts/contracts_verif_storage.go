//go:build verif

package kvql

// Interface contracts for kv.go (Storage, Cursor) and for Expression.Execute,
// with the ghost state the plan contracts are written against. Comment-only.
//
// Ghost state (A-STORE: what the storage is assumed to do is stated here, and is
// a hypothesis of the properties, not a fact about kvql):
//   nops     number of storage / cursor operations issued so far
//   nmut     number of mutating operations (Put, BatchPut, Delete, BatchDelete) issued so far
//   nput / nbput / ndel / nbdel   the same per kind; ndelkeys = total number of keys handed to BatchDelete
//   failed   some storage operation has returned an error; lastErr is that error
//   lastOp   the last mutating operation: 1 Put, 2 BatchPut, 3 Delete, 4 BatchDelete,
//            with its arguments in lastKey / lastVal / lastKVs / lastKeys
// "requires !failed" on every operation is the typestate of C13: once an
// operation has failed, issuing another one violates a precondition.

//@ ghostvar nops Int
//@ ghostvar nmut Int
//@ ghostvar nput Int
//@ ghostvar nbput Int
//@ ghostvar ndel Int
//@ ghostvar nbdel Int
//@ ghostvar ndelkeys Int
//@ ghostvar failed Bool
//@ ghostvar lastErr Int
//@ ghostvar lastOp Int
//@ ghostvar lastKey B
//@ ghostvar lastVal B
//@ ghostvar lastKVs []KVPair
//@ ghostvar lastKeys [][]byte
//
// evalok / evalv: the outcome of evaluating an expression on a pair (A-EVAL:
// evaluation is a function of the expression and the pair's key and value).
//@ specfun evalok(Int, B, B) Bool
//@ specfun evalv(Int, B, B) Any
//
//@ iface (s Storage) Put(key []byte, value []byte) (err error)
//@   requires nofail: !failed
//@   assigns nops, nmut, nput, failed, lastErr, lastOp, lastKey, lastVal
//@   ensures nops == old(nops) + 1 && nmut == old(nmut) + 1 && nput == old(nput) + 1
//@   ensures lastOp == 1 && lastKey == val(key) && lastVal == val(value)
//@   ensures (err != nil ==> failed && lastErr == err) && (err == nil ==> !failed)
//
//@ iface (s Storage) BatchPut(kvs []KVPair) (err error)
//@   requires nofail: !failed
//@   assigns nops, nmut, nbput, failed, lastErr, lastOp, lastKVs
//@   ensures nops == old(nops) + 1 && nmut == old(nmut) + 1 && nbput == old(nbput) + 1
//@   ensures lastOp == 2 && lastKVs == kvs
//@   ensures (err != nil ==> failed && lastErr == err) && (err == nil ==> !failed)
//
//@ iface (s Storage) Delete(key []byte) (err error)
//@   requires nofail: !failed
//@   assigns nops, nmut, ndel, failed, lastErr, lastOp, lastKey
//@   ensures nops == old(nops) + 1 && nmut == old(nmut) + 1 && ndel == old(ndel) + 1
//@   ensures lastOp == 3 && lastKey == val(key)
//@   ensures (err != nil ==> failed && lastErr == err) && (err == nil ==> !failed)
//
//@ iface (s Storage) BatchDelete(keys [][]byte) (err error)
//@   requires nofail: !failed
//@   assigns nops, nmut, nbdel, ndelkeys, failed, lastErr, lastOp, lastKeys
//@   ensures nops == old(nops) + 1 && nmut == old(nmut) + 1 && nbdel == old(nbdel) + 1 && ndelkeys == old(ndelkeys) + len(keys)
//@   ensures lastOp == 4 && lastKeys == keys
//@   ensures (err != nil ==> failed && lastErr == err) && (err == nil ==> !failed)
//
//@ iface (e Expression) Execute(kv KVPair, ctx *ExecuteCtx) (result any, err error)
//@   requires[C05] coherent: coherent(ctx, val(kv.Key), val(kv.Value)) && wfCtx(ctx) && wfRefs()
//@   assigns ctx.Hit, mapof(ctx.FieldCaches)
//@   ensures[C05] coherent: coherent(ctx, val(kv.Key), val(kv.Value))
//@   ensures evalok: (err == nil) == evalok(e, val(kv.Key), val(kv.Value))
//@   ensures evalv: err == nil ==> result == evalv(e, val(kv.Key), val(kv.Value))
//
// ---------------------------------------------------------------- cursors (A-STORE)
//
// A cursor iterates over a snapshot: ckey(c, i) / cval(c, i) for 0 <= i < clen(c),
// keys strictly ascending (axiom csorted); cpos(c) pairs have been consumed.
//@ specfun ckey(Int, Int) B
//@ specfun cval(Int, Int) B
//@ specfun clen(Int) Int
//@ ghostfield cpos(Cursor) Int
//@ define wfCur(c Cursor) Bool = c != nil && 0 <= cpos(c) && cpos(c) <= clen(c)
//@ axiom csorted(c Cursor, i Int, j Int): 0 <= i && i < j && j < clen(c) ==> ckey(c, i) < ckey(c, j)
//
//@ iface (s Storage) Cursor() (cursor Cursor, err error)
//@   requires nofail: !failed
//@   assigns nops, failed, lastErr
//@   ensures nops == old(nops) + 1 && nmut == old(nmut)
//@   ensures err == nil ==> cursor != nil && fresh(cursor) && cpos(cursor) == 0 && clen(cursor) >= 0
//@   ensures (err != nil ==> failed && lastErr == err) && (err == nil ==> !failed)
//
//@ iface (c Cursor) Seek(prefix []byte) (err error)
//@   requires nofail: !failed
//@   requires c != nil
//@   assigns cpos(c), nops, failed, lastErr
//@   ensures nops == old(nops) + 1
//@   ensures err == nil ==> wfCur(c) && (cpos(c) > 0 ==> ckey(c, cpos(c) - 1) < val(prefix)) && (cpos(c) < clen(c) ==> val(prefix) <= ckey(c, cpos(c)))
//@   ensures (err != nil ==> failed && lastErr == err) && (err == nil ==> !failed)
//
//@ iface (c Cursor) Next() (key []byte, value []byte, err error)
//@   requires nofail: !failed
//@   requires wfCur(c)
//@   assigns cpos(c), nops, failed, lastErr
//@   ensures nops == old(nops) + 1 && wfCur(c)
//@   ensures err == nil && old(cpos(c)) < clen(c) ==> cpos(c) == old(cpos(c)) + 1 && !isnil(key) && val(key) == ckey(c, old(cpos(c))) && val(value) == cval(c, old(cpos(c)))
//@   ensures err == nil && old(cpos(c)) >= clen(c) ==> cpos(c) == old(cpos(c)) && isnil(key) && isnil(value)
//@   ensures err != nil ==> cpos(c) == old(cpos(c))
//@   ensures (err != nil ==> failed && lastErr == err) && (err == nil ==> !failed)
//
// Point reads: sget(k) / shas(k) is the store's content as seen by Get (the store is
// not written while a SELECT runs: nmut is outside every read-only plan's frame).
//@ specfun shas(B) Bool
//@ specfun sget(B) B
//@ ghostvar lastGet B
//@ iface (s Storage) Get(key []byte) (value []byte, err error)
//@   requires nofail: !failed
//@   assigns nops, failed, lastErr, lastGet
//@   ensures nops == old(nops) + 1 && lastGet == val(key)
//@   ensures err == nil ==> (isnil(value) == !shas(val(key))) && (shas(val(key)) ==> val(value) == sget(val(key)))
//@   ensures (err != nil ==> failed && lastErr == err) && (err == nil ==> !failed)
