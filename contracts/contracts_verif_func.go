//go:build verif

package kvql

// Contracts for func.go (value coercions) and scalar_func.go (property C10; row forms).
// Comment-only.
//
// Coercions shared by the function bodies.
//@ func toInt(value any, defVal int64) (n int64)
//@   props C10
//@   assigns nothing
//@   ensures[C10] same: isInt(value) ==> n == intof(value)
//@   ensures[C10] decimal: isText(value) && parseIntOk(textOf(value)) ==> n == parseInt(textOf(value))
//@   ensures[C10] fallback: isText(value) && !parseIntOk(textOf(value)) && !parseFloatOk(textOf(value)) ==> n == defVal
//
//@ func toFloat(value any, defVal float64) (f float64)
//@   props C10
//@   assigns nothing
//@   ensures[C10] same: is(value, float64) ==> f == fltof(value)
//@   ensures[C10] widened: is(value, int) || is(value, int32) || is(value, int64) || is(value, uint) || is(value, uint32) || is(value, uint64) ==> f == i2f(intof(value))
//@   ensures[C10] decimal: isText(value) && parseFloatOk(textOf(value)) ==> f == parseFloat(textOf(value))
//@   ensures[C10] fallback: isText(value) && !parseFloatOk(textOf(value)) ==> f == defVal
//
// The function bodies take their arguments unevaluated; a0 is the value of the first argument.
//@ define wfArgs(args []Expression, n Int) Bool = len(args) == n && (forall i Int :: 0 <= i && i < len(args) ==> args[i] != nil)
//@ define aok(args []Expression, i Int, kv KVPair) Bool = evalok(args[i], val(kv.Key), val(kv.Value))
//@ define av(args []Expression, i Int, kv KVPair) Any = evalv(args[i], val(kv.Key), val(kv.Value))
//
//@ func funcToString(kv KVPair, args []Expression, ctx *ExecuteCtx) (ret any, err error)
//@   props C10
//@   requires wfArgs(args, 1)
//@   assigns ctx.Hit, mapof(ctx.FieldCaches)
//@   ensures[C10] defined: (err == nil) == aok(args, 0, kv)
//@   ensures[C10] str: err == nil ==> isstr(ret) && (isInt(av(args, 0, kv)) ==> textOf(ret) == itoa(intof(av(args, 0, kv)))) && (isText(av(args, 0, kv)) ==> textOf(ret) == textOf(av(args, 0, kv)))
//
//@ func funcToInt(kv KVPair, args []Expression, ctx *ExecuteCtx) (ret any, err error)
//@   props C10
//@   requires wfArgs(args, 1)
//@   assigns ctx.Hit, mapof(ctx.FieldCaches)
//@   ensures[C10] defined: (err == nil) == aok(args, 0, kv)
//@   ensures[C10] int: err == nil ==> isint64(ret) && (isText(av(args, 0, kv)) && parseIntOk(textOf(av(args, 0, kv))) ==> intof(ret) == parseInt(textOf(av(args, 0, kv)))) && (isInt(av(args, 0, kv)) ==> intof(ret) == intof(av(args, 0, kv)))
//
//@ func funcToFloat(kv KVPair, args []Expression, ctx *ExecuteCtx) (ret any, err error)
//@   props C10
//@   requires wfArgs(args, 1)
//@   assigns ctx.Hit, mapof(ctx.FieldCaches)
//@   ensures[C10] defined: (err == nil) == aok(args, 0, kv)
//@   ensures[C10] float: err == nil ==> isf64(ret) && (isText(av(args, 0, kv)) && parseFloatOk(textOf(av(args, 0, kv))) ==> fltof(ret) == parseFloat(textOf(av(args, 0, kv))))
//
//@ func funcIsInt(kv KVPair, args []Expression, ctx *ExecuteCtx) (ret any, err error)
//@   props C10
//@   requires wfArgs(args, 1)
//@   assigns ctx.Hit, mapof(ctx.FieldCaches)
//@   ensures[C10] defined: (err == nil) == aok(args, 0, kv)
//@   ensures[C10] isint: err == nil ==> ret == ABool(isInt(av(args, 0, kv)) || (isText(av(args, 0, kv)) && parseIntOk(textOf(av(args, 0, kv)))))
//
//@ func funcIsFloat(kv KVPair, args []Expression, ctx *ExecuteCtx) (ret any, err error)
//@   props C10
//@   requires wfArgs(args, 1)
//@   assigns ctx.Hit, mapof(ctx.FieldCaches)
//@   ensures[C10] defined: (err == nil) == aok(args, 0, kv)
//@   ensures[C10] isfloat: err == nil ==> ret == ABool(isFlt(av(args, 0, kv)) || (isText(av(args, 0, kv)) && parseFloatOk(textOf(av(args, 0, kv)))))
//
//@ func funcStrlen(kv KVPair, args []Expression, ctx *ExecuteCtx) (ret any, err error)
//@   props C10
//@   requires wfArgs(args, 1)
//@   assigns ctx.Hit, mapof(ctx.FieldCaches)
//@   ensures[C10] defined: (err == nil) == aok(args, 0, kv)
//@   ensures[C10] bytes: err == nil && isText(av(args, 0, kv)) ==> ret == AInt(blen(textOf(av(args, 0, kv))))
//
// substr(value, start, end): the bytes of value from position start up to (not including)
// position end, positions clamped to the text (README; spec.md: "substring from 2 to 3 (one char)").
//@ define lo0(a Int) Int = ite(a < 0, 0, a)
//@ define hiN(b Int, n Int) Int = ite(b > n, n, b)
//@ define subText(s B, a Int, b Int) B = ite(lo0(a) < hiN(b, blen(s)), sub(s, lo0(a), hiN(b, blen(s))), "")
//@ func funcSubStr(kv KVPair, args []Expression, ctx *ExecuteCtx) (ret any, err error)
//@   props C10
//@   requires wfArgs(args, 3)
//@   assigns ctx.Hit, mapof(ctx.FieldCaches)
//@   ensures[C10] substring: err == nil && isText(av(args, 0, kv)) && isInt(av(args, 1, kv)) && isInt(av(args, 2, kv)) ==> isstr(ret) && textOf(ret) == subText(textOf(av(args, 0, kv)), intof(av(args, 1, kv)), intof(av(args, 2, kv)))
//@   ensures[C10] total: aok(args, 0, kv) && aok(args, 1, kv) && aok(args, 2, kv) && rtype(args[1]) == TNUMBER && rtype(args[2]) == TNUMBER ==> err == nil
