//go:build verif

package kvql

// Contracts for filter_optimizer.go (properties C02, C18). Comment-only file:
// with the build tag off it is not compiled, with it on it compiles to nothing.
//
// Oracle. holds(e, k, v) is "expression e evaluates to true on the pair (k, v)"
// under the documented operator semantics (README, "Operators"); the axioms
// sem_* below transcribe what the documentation says a key-constraining atom
// means. Everything else is opaque: an atom without an axiom may hold anywhere.
//
// covers(st, k) is the set of keys a ScanType stands for, read off what
// Optimize() builds and the scan plans read.

//@ specfun holds(Int, B, B) Bool
//
//@ define wfRange(s NB, e NB) Bool = !isnil(s) && !isnil(e) ==> val(s) <= val(e)
//@ define wfST(st *ScanType) Bool = st != nil && st.scanTp >= 1 && st.scanTp <= 5
//@   | && (st.scanTp == MGET ==> (forall i Int :: 0 <= i && i < len(st.keys) ==> !isnil(st.keys[i])))
//@   | && (st.scanTp == PREFIX ==> len(st.keys) >= 1 && !isnil(st.keys[0]))
//@   | && (st.scanTp == RANGE ==> len(st.keys) == 2 && wfRange(st.keys[0], st.keys[1]))
//
//@ define coversRange(s NB, e NB, k B) Bool = (isnil(s) || val(s) <= k) && (isnil(e) || k <= val(e))
//
//@ define covers(st *ScanType, k B) Bool = ite(st.scanTp == EMPTY, false, ite(st.scanTp == MGET, member(st.keys, len(st.keys), k), ite(st.scanTp == PREFIX, pre(val(st.keys[0]), k), ite(st.scanTp == RANGE, coversRange(st.keys[0], st.keys[1], k), true))))
//
//@ define isKey(x Expression) Bool = is(x, *FieldExpr) && as(x, *FieldExpr).Field == KeyKW
//@ define isStr(x Expression) Bool = is(x, *StringExpr)
//@ define strOf(x Expression) B = val(as(x, *StringExpr).Data)
//
//@ axiom sem_and(e *BinaryOpExpr, k B, v B): (e.Op == And || e.Op == KWAnd) && holds(e, k, v) ==> holds(e.Left, k, v) && holds(e.Right, k, v)
//@ axiom sem_or(e *BinaryOpExpr, k B, v B): (e.Op == Or || e.Op == KWOr) && holds(e, k, v) ==> holds(e.Left, k, v) || holds(e.Right, k, v)
//@ axiom sem_eq(e *BinaryOpExpr, k B, v B): e.Op == Eq && holds(e, k, v) ==> (isKey(e.Left) && isStr(e.Right) ==> k == strOf(e.Right)) && (isStr(e.Left) && isKey(e.Right) ==> k == strOf(e.Left))
//@ axiom sem_prefix(e *BinaryOpExpr, k B, v B): e.Op == PrefixMatch && holds(e, k, v) ==> (isKey(e.Left) && isStr(e.Right) ==> pre(strOf(e.Right), k)) && (isStr(e.Left) && isKey(e.Right) ==> pre(k, strOf(e.Left)))
//@ axiom sem_gt(e *BinaryOpExpr, k B, v B): e.Op == Gt && holds(e, k, v) ==> (isKey(e.Left) && isStr(e.Right) ==> strOf(e.Right) < k) && (isStr(e.Left) && isKey(e.Right) ==> k < strOf(e.Left))
//@ axiom sem_gte(e *BinaryOpExpr, k B, v B): e.Op == Gte && holds(e, k, v) ==> (isKey(e.Left) && isStr(e.Right) ==> strOf(e.Right) <= k) && (isStr(e.Left) && isKey(e.Right) ==> k <= strOf(e.Left))
//@ axiom sem_lt(e *BinaryOpExpr, k B, v B): e.Op == Lt && holds(e, k, v) ==> (isKey(e.Left) && isStr(e.Right) ==> k < strOf(e.Right)) && (isStr(e.Left) && isKey(e.Right) ==> strOf(e.Left) < k)
//@ axiom sem_lte(e *BinaryOpExpr, k B, v B): e.Op == Lte && holds(e, k, v) ==> (isKey(e.Left) && isStr(e.Right) ==> k <= strOf(e.Right)) && (isStr(e.Left) && isKey(e.Right) ==> strOf(e.Left) <= k)
//@ axiom sem_false(e Expression, k B, v B): is(e, *BoolExpr) && holds(e, k, v) ==> as(e, *BoolExpr).Bool
//
// Counterexample-search only (never used in a proof): the exact meaning of an
// atom whose operands are key / value / string literals, so that models of a
// failed obligation are realistic enough to replay.
//@ define isOperand(x Expression) Bool = is(x, *FieldExpr) || is(x, *StringExpr)
//@ define operandOf(x Expression, k B, v B) B = ite(is(x, *StringExpr), strOf(x), ite(as(x, *FieldExpr).Field == KeyKW, k, v))
//@ cexaxiom cx_atom(e *BinaryOpExpr, k B, v B): isOperand(e.Left) && isOperand(e.Right) ==> (e.Op == Eq ==> (holds(e, k, v) <==> operandOf(e.Left, k, v) == operandOf(e.Right, k, v))) && (e.Op == PrefixMatch ==> (holds(e, k, v) <==> pre(operandOf(e.Right, k, v), operandOf(e.Left, k, v)))) && (e.Op == Gt ==> (holds(e, k, v) <==> operandOf(e.Right, k, v) < operandOf(e.Left, k, v))) && (e.Op == Gte ==> (holds(e, k, v) <==> operandOf(e.Right, k, v) <= operandOf(e.Left, k, v))) && (e.Op == Lt ==> (holds(e, k, v) <==> operandOf(e.Left, k, v) < operandOf(e.Right, k, v))) && (e.Op == Lte ==> (holds(e, k, v) <==> operandOf(e.Left, k, v) <= operandOf(e.Right, k, v)))
//
//@ func inRange(start, end, val []byte, isEnd bool) bool
//@   pure
//
// ---------------------------------------------------------------- RANGE x RANGE
//
//@ func (o *FilterOptimizer) unionRange(l, r *ScanType) (res *ScanType)
//@   props C02 C18
//@   ghost k B
//@   requires wfST(l) && wfST(r) && l.scanTp == RANGE && r.scanTp == RANGE
//@   ensures wf: wfST(res)
//@   ensures[C02] covers: old(covers(l, k)) || old(covers(r, k)) ==> covers(res, k)
//@   assigns nothing
//
//@ func (o *FilterOptimizer) intersectionRange(l, r *ScanType) (res *ScanType)
//@   props C02 C18
//@   ghost k B
//@   requires wfST(l) && wfST(r) && l.scanTp == RANGE && r.scanTp == RANGE
//@   ensures wf: wfST(res)
//@   ensures[C02] covers: old(covers(l, k)) && old(covers(r, k)) ==> covers(res, k)
//@   assigns nothing
//
// ---------------------------------------------------------------- PREFIX x PREFIX
//
//@ func (o *FilterOptimizer) intersectionPrefix(l, r *ScanType) (res *ScanType)
//@   props C02 C18
//@   ghost k B
//@   requires wfST(l) && wfST(r) && l.scanTp == PREFIX && r.scanTp == PREFIX
//@   ensures wf: wfST(res)
//@   ensures[C02] covers: old(covers(l, k)) && old(covers(r, k)) ==> covers(res, k)
//@   assigns nothing
//
//@ func (o *FilterOptimizer) unionPrefix(l, r *ScanType) (res *ScanType)
//@   props C02 C18
//@   ghost k B
//@   requires wfST(l) && wfST(r) && l.scanTp == PREFIX && r.scanTp == PREFIX
//@   ensures wf: wfST(res)
//@   ensures[C02] covers: old(covers(l, k)) || old(covers(r, k)) ==> covers(res, k)
//@   assigns nothing
//
// ---------------------------------------------------------------- PREFIX x RANGE
//
//@ func (o *FilterOptimizer) intersectionPrefixAndRange(prefix, srange *ScanType) (res *ScanType)
//@   props C02 C18
//@   ghost k B
//@   requires wfST(prefix) && wfST(srange) && prefix.scanTp == PREFIX && srange.scanTp == RANGE
//@   ensures wf: wfST(res)
//@   ensures[C02] covers: old(covers(prefix, k)) && old(covers(srange, k)) ==> covers(res, k)
//@   assigns nothing
//
//@ func (o *FilterOptimizer) unionPrefixAndRange(prefix, srange *ScanType) (res *ScanType)
//@   props C02 C18
//@   ghost k B
//@   requires wfST(prefix) && wfST(srange) && prefix.scanTp == PREFIX && srange.scanTp == RANGE
//@   ensures wf: wfST(res)
//@   ensures[C02] covers: old(covers(prefix, k)) || old(covers(srange, k)) ==> covers(res, k)
//@   assigns nothing
//
// ---------------------------------------------------------------- MGET x PREFIX / RANGE
//
//@ func (o *FilterOptimizer) intersectionMgetAndPrefix(mget, prefix *ScanType) (res *ScanType)
//@   props C02 C18
//@   ghost k B
//@   requires wfST(mget) && wfST(prefix) && mget.scanTp == MGET && prefix.scanTp == PREFIX
//@   ensures wf: wfST(res)
//@   ensures[C02] covers: old(covers(mget, k)) && old(covers(prefix, k)) ==> covers(res, k)
//@   assigns nothing
//@   loop 0 (k)
//@     invariant nn: forall i Int :: 0 <= i && i < len(ikeys) ==> !isnil(ikeys[i])
//@     invariant acc: member(mget.keys, rangeindex + 1, k) && pre(val(prefixKey), k) ==> member(ikeys, len(ikeys), k)
//@     decreases len(mget.keys) - rangeindex
//
//@ func (o *FilterOptimizer) unionMgetAndPrefix(mget, prefix *ScanType) (res *ScanType)
//@   props C02 C18
//@   ghost k B
//@   requires wfST(mget) && wfST(prefix) && mget.scanTp == MGET && prefix.scanTp == PREFIX
//@   ensures wf: wfST(res)
//@   ensures[C02] covers: old(covers(mget, k)) || old(covers(prefix, k)) ==> covers(res, k)
//@   assigns nothing
//@   loop 0 (k)
//@     invariant all: !havePrefixNotMatch ==> (member(mget.keys, rangeindex + 1, k) ==> pre(val(prefixKey), k))
//@     decreases len(mget.keys) - rangeindex
//
//@ func (o *FilterOptimizer) intersectionMgetAndRange(mget, srange *ScanType) (res *ScanType)
//@   props C02 C18
//@   ghost k B
//@   requires wfST(mget) && wfST(srange) && mget.scanTp == MGET && srange.scanTp == RANGE
//@   ensures wf: wfST(res)
//@   ensures[C02] covers: old(covers(mget, k)) && old(covers(srange, k)) ==> covers(res, k)
//@   assigns nothing
//@   loop 0 (k)
//@     invariant nn: forall i Int :: 0 <= i && i < len(ikeys) ==> !isnil(ikeys[i])
//@     invariant acc: member(mget.keys, rangeindex + 1, k) && coversRange(rstart, rend, k) ==> member(ikeys, len(ikeys), k)
//@     decreases len(mget.keys) - rangeindex
//
//@ func (o *FilterOptimizer) unionMgetAndRange(mget, srange *ScanType) (res *ScanType)
//@   props C02 C18
//@   ghost k B
//@   requires wfST(mget) && wfST(srange) && mget.scanTp == MGET && srange.scanTp == RANGE
//@   ensures wf: wfST(res)
//@   ensures[C02] covers: old(covers(mget, k)) || old(covers(srange, k)) ==> covers(res, k)
//@   assigns nothing
//@   loop 0 (k)
//@     invariant all: !haveRangeNotMatch ==> (member(mget.keys, rangeindex + 1, k) ==> coversRange(rstart, rend, k))
//@     decreases len(mget.keys) - rangeindex
//
// ---------------------------------------------------------------- atoms
//
//@ func (o *FilterOptimizer) optimizeEqualExpr(e *BinaryOpExpr) (res *ScanType)
//@   props C02 C18
//@   ghost k B, v B
//@   requires e != nil && e.Op == Eq
//@   use cx_atom(e, k, v)
//@   use sem_eq(e, k, v)
//@   ensures wf: wfST(res)
//@   ensures[C02] covers: holds(e, k, v) ==> covers(res, k)
//@   assigns nothing
//
//@ func (o *FilterOptimizer) optimizePrefixMatchExpr(e *BinaryOpExpr) (res *ScanType)
//@   props C02 C18
//@   ghost k B, v B
//@   requires e != nil && e.Op == PrefixMatch
//@   use cx_atom(e, k, v)
//@   use sem_prefix(e, k, v)
//@   ensures wf: wfST(res)
//@   ensures[C02] covers: holds(e, k, v) ==> covers(res, k)
//@   assigns nothing
//
//@ func (o *FilterOptimizer) optimizeGtGteExpr(e *BinaryOpExpr) (res *ScanType)
//@   props C02 C18
//@   ghost k B, v B
//@   requires e != nil && (e.Op == Gt || e.Op == Gte)
//@   use cx_atom(e, k, v)
//@   use sem_gt(e, k, v)
//@   use sem_gte(e, k, v)
//@   ensures wf: wfST(res)
//@   ensures[C02] covers: holds(e, k, v) ==> covers(res, k)
//@   assigns nothing
//
//@ func (o *FilterOptimizer) optimizeLtLteExpr(e *BinaryOpExpr) (res *ScanType)
//@   props C02 C18
//@   ghost k B, v B
//@   requires e != nil && (e.Op == Lt || e.Op == Lte)
//@   use cx_atom(e, k, v)
//@   use sem_lt(e, k, v)
//@   use sem_lte(e, k, v)
//@   ensures wf: wfST(res)
//@   ensures[C02] covers: holds(e, k, v) ==> covers(res, k)
//@   assigns nothing
//
// ---------------------------------------------------------------- AND / OR / dispatch
//
//@ func (o *FilterOptimizer) optimizeAndExpr(e *BinaryOpExpr) (res *ScanType)
//@   props C02 C18
//@   ghost k B, v B
//@   requires e != nil && (e.Op == And || e.Op == KWAnd)
//@   use sem_and(e, k, v)
//@   ensures wf: wfST(res)
//@   ensures[C02] covers: holds(e, k, v) ==> covers(res, k)
//@   assigns nothing
//
//@ func (o *FilterOptimizer) optimizeOrExpr(e *BinaryOpExpr) (res *ScanType)
//@   props C02 C18
//@   ghost k B, v B
//@   requires e != nil && (e.Op == Or || e.Op == KWOr)
//@   use sem_or(e, k, v)
//@   ensures wf: wfST(res)
//@   ensures[C02] covers: holds(e, k, v) ==> covers(res, k)
//@   assigns nothing
//
//@ func (o *FilterOptimizer) optimizeExpr(expr Expression) (res *ScanType)
//@   props C02 C18
//@   ghost k B, v B
//@   use sem_false(expr, k, v)
//@   ensures wf: wfST(res)
//@   ensures[C02] covers: holds(expr, k, v) ==> covers(res, k)
//@   assigns nothing
//
// ---------------------------------------------------------------- IN / BETWEEN
//
//@ define listOf(e *BinaryOpExpr) []Expression = as(e.Right, *ListExpr).List
//@ define inListStr(L []Expression, n Int, k B) Bool = exists i Int :: 0 <= i && i < n && isStr(L[i]) && strOf(L[i]) == k
//@ define someNonStr(L []Expression, n Int) Bool = exists i Int :: 0 <= i && i < n && !isStr(L[i])
//
//@ axiom sem_in(e *BinaryOpExpr, k B, v B): e.Op == In && holds(e, k, v) && isKey(e.Left) && is(e.Right, *ListExpr) && !someNonStr(listOf(e), len(listOf(e))) ==> inListStr(listOf(e), len(listOf(e)), k)
//@ axiom sem_between(e *BinaryOpExpr, k B, v B): e.Op == Between && holds(e, k, v) && isKey(e.Left) && is(e.Right, *ListExpr) && len(listOf(e)) == 2 && isStr(listOf(e)[0]) && isStr(listOf(e)[1]) ==> strOf(listOf(e)[0]) <= k && k <= strOf(listOf(e)[1])
//
//@ func (o *FilterOptimizer) optimizeInExpr(e *BinaryOpExpr) (res *ScanType)
//@   props C02 C18
//@   ghost k B, v B
//@   requires e != nil && e.Op == In
//@   use sem_in(e, k, v)
//@   ensures wf: wfST(res)
//@   ensures[C02] covers: holds(e, k, v) ==> covers(res, k)
//@   assigns nothing
//@   loop 0 (expr)
//@     invariant nn: forall i Int :: 0 <= i && i < len(keys) ==> !isnil(keys[i])
//@     invariant allstr: canUseMget ==> !someNonStr(listOf(e), rangeindex + 1)
//@     invariant acc: inListStr(listOf(e), rangeindex + 1, k) ==> member(keys, len(keys), k)
//@     decreases len(listOf(e)) - rangeindex
//
//@ func (o *FilterOptimizer) optimizeBetweenExpr(e *BinaryOpExpr) (res *ScanType)
//@   props C02 C18
//@   ghost k B, v B
//@   requires e != nil && e.Op == Between
//@   use sem_between(e, k, v)
//@   ensures wf: wfST(res)
//@   ensures[C02] covers: holds(e, k, v) ==> covers(res, k)
//@   assigns nothing
//@   loop 0 (expr)
//@     invariant lo: canUseRange && rangeindex >= 0 ==> isStr(listOf(e)[0]) && !isnil(lower) && val(lower) == strOf(listOf(e)[0])
//@     invariant hi: canUseRange && rangeindex >= 1 ==> isStr(listOf(e)[1]) && !isnil(upper) && val(upper) == strOf(listOf(e)[1])
//@     decreases len(listOf(e)) - rangeindex
//
// ---------------------------------------------------------------- MGET x MGET (maps)
//
//@ func (o *FilterOptimizer) unionMget(l, r *ScanType) (res *ScanType)
//@   props C02 C18
//@   ghost k B
//@   requires wfST(l) && wfST(r) && l.scanTp == MGET && r.scanTp == MGET
//@   ensures wf: wfST(res)
//@   ensures[C02] covers: old(covers(l, k)) || old(covers(r, k)) ==> covers(res, k)
//@   assigns nothing
//@   loop 0 (k)
//@     invariant mapwf: forall q B :: has(ukeys, q) ==> !isnil(ukeys[q]) && val(ukeys[q]) == q
//@     invariant acc: member(l.keys, rangeindex + 1, k) ==> has(ukeys, k)
//@   loop 1 (k)
//@     invariant mapwf: forall q B :: has(ukeys, q) ==> !isnil(ukeys[q]) && val(ukeys[q]) == q
//@     invariant acc: member(l.keys, len(l.keys), k) || member(r.keys, rangeindex + 1, k) ==> has(ukeys, k)
//@   loop 2 (v)
//@     invariant mapwf: forall q B :: has(ukeys, q) ==> !isnil(ukeys[q]) && val(ukeys[q]) == q
//@     invariant nn: forall i Int :: 0 <= i && i < len(keys) ==> !isnil(keys[i])
//@     invariant acc: has(ukeys, k) && visited(k) ==> member(keys, len(keys), k)
//
//@ func (o *FilterOptimizer) intersectionMget(l, r *ScanType) (res *ScanType)
//@   props C02 C18
//@   ghost k B
//@   requires wfST(l) && wfST(r) && l.scanTp == MGET && r.scanTp == MGET
//@   ensures wf: wfST(res)
//@   ensures[C02] covers: old(covers(l, k)) && old(covers(r, k)) ==> covers(res, k)
//@   assigns nothing
//@   loop 0 (k)
//@     invariant mapwf: forall q B :: has(lkeys, q) ==> !isnil(lkeys[q]) && val(lkeys[q]) == q
//@     invariant acc: member(l.keys, rangeindex + 1, k) ==> has(lkeys, k)
//@   loop 1 (k)
//@     invariant mapwf: forall q B :: has(lkeys, q) ==> !isnil(lkeys[q]) && val(lkeys[q]) == q
//@     invariant keepl: member(l.keys, len(l.keys), k) ==> has(lkeys, k)
//@     invariant acc: member(r.keys, rangeindex + 1, k) ==> has(rkeys, k)
//@   loop 2 (lv)
//@     invariant mapwf: forall q B :: has(lkeys, q) ==> !isnil(lkeys[q]) && val(lkeys[q]) == q
//@     invariant nn: forall i Int :: 0 <= i && i < len(keys) ==> !isnil(keys[i])
//@     invariant acc: has(lkeys, k) && has(rkeys, k) && visited(k) ==> member(keys, len(keys), k)
//
//@ func (o *FilterOptimizer) optimizeLiteralFirstExpr(e *BinaryOpExpr, left *StringExpr, keyIsGreater bool) (res *ScanType)
//@   props C02 C18
//@   ghost k B, v B
//@   requires e != nil && left != nil && e.Left == left
//@   requires (keyIsGreater && (e.Op == Lt || e.Op == Lte)) || (!keyIsGreater && (e.Op == Gt || e.Op == Gte))
//@   use cx_atom(e, k, v)
//@   use sem_gt(e, k, v)
//@   use sem_gte(e, k, v)
//@   use sem_lt(e, k, v)
//@   use sem_lte(e, k, v)
//@   ensures wf: wfST(res)
//@   ensures[C02] covers: holds(e, k, v) ==> covers(res, k)
//@   assigns nothing
