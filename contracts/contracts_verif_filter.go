//go:build verif

package kvql

// Contracts for filter_optimizer.go (properties C02, C18). Comment-only file.

//@ define wfST(st *ScanType) Bool = st != nil && st.scanTp >= 1 && st.scanTp <= 5 && (st.scanTp == PREFIX ==> len(st.keys) >= 1) && (st.scanTp == RANGE ==> len(st.keys) == 2)
//
//@ define coversRange(s NB, e NB, k B) Bool = (isnil(s) || val(s) <= k) && (isnil(e) || k <= val(e))
//
//@ define covers(st *ScanType, k B) Bool = ite(st.scanTp == EMPTY, false, ite(st.scanTp == MGET, member(st.keys, len(st.keys), k), ite(st.scanTp == PREFIX, pre(val(st.keys[0]), k), ite(st.scanTp == RANGE, coversRange(st.keys[0], st.keys[1], k), true))))
//
//@ func inRange(start, end, val []byte, isEnd bool) bool
//@   pure
//
//@ func (o *FilterOptimizer) unionRange(l, r *ScanType) (res *ScanType)
//@   props C02
//@   ghost k B
//@   requires wfST(l) && wfST(r) && l.scanTp == RANGE && r.scanTp == RANGE
//@   ensures wf: wfST(res)
//@   ensures[C02] covers: old(covers(l, k)) || old(covers(r, k)) ==> covers(res, k)
//@   assigns nothing
