//go:build verif

package kvql

// Contracts for walker.go and for the DELETE -> REMOVE shortcut test of optimizer.go
// (property C11). Comment-only.
//
// hasAnd(e): an AND (& / and) node occurs in the expression tree e. wfx(e): every child
// link of the tree is non-nil. Both are defined by the unfolding axioms below (one per
// node type; definitions, not facts about the code).

//@ specfun hasAnd(Int) Bool
//@ specfun wfx(Int) Bool
//@ ghostvar walkFlag Bool
//
//@ define isAndNode(e Expression) Bool = is(e, *BinaryOpExpr) && (as(e, *BinaryOpExpr).Op == And || as(e, *BinaryOpExpr).Op == KWAnd)
//@ define anyHasAnd(L []Expression, n Int) Bool = exists i Int :: 0 <= i && i < n && hasAnd(L[i])
//@ define someBadChild(L []Expression, n Int) Bool = exists i Int :: 0 <= i && i < n && !(L[i] != nil && wfx(L[i]))
//
//@ axiom def_bin(e *BinaryOpExpr): (hasAnd(e) == (e.Op == And || e.Op == KWAnd || hasAnd(e.Left) || hasAnd(e.Right))) && (wfx(e) == (e.Left != nil && e.Right != nil && wfx(e.Left) && wfx(e.Right)))
//@ axiom def_not(e *NotExpr): (hasAnd(e) == hasAnd(e.Right)) && (wfx(e) == (e.Right != nil && wfx(e.Right)))
//@ axiom def_ref(e *FieldReferenceExpr): (hasAnd(e) == hasAnd(e.FieldExpr)) && (wfx(e) == (e.FieldExpr != nil && wfx(e.FieldExpr)))
//@ axiom def_acc(e *FieldAccessExpr): (hasAnd(e) == (hasAnd(e.Left) || hasAnd(e.FieldName))) && (wfx(e) == (e.Left != nil && e.FieldName != nil && wfx(e.Left) && wfx(e.FieldName)))
//@ axiom def_call(e *FunctionCallExpr): (hasAnd(e) == (hasAnd(e.Name) || anyHasAnd(e.Args, len(e.Args)))) && (wfx(e) == (e.Name != nil && wfx(e.Name) && !someBadChild(e.Args, len(e.Args))))
//@ axiom def_list(e *ListExpr): (hasAnd(e) == anyHasAnd(e.List, len(e.List))) && (wfx(e) == !someBadChild(e.List, len(e.List)))
//@ axiom def_leaf(e Expression): (is(e, *FieldExpr) || is(e, *StringExpr) || is(e, *NameExpr) || is(e, *NumberExpr) || is(e, *FloatExpr) || is(e, *BoolExpr)) ==> !hasAnd(e) && wfx(e)
//
// The callback protocol of the one Walk client in the package: the flag becomes (and stays)
// true at an AND node, and the walk does not descend below it.
//@ functype WalkCallback(cb WalkCallback, e Expression) (goOn bool)
//@   assigns walkFlag
//@   ensures walkFlag == (old(walkFlag) || isAndNode(e))
//@   ensures goOn == !isAndNode(e)
//
//@ iface (e Expression) Walk(cb WalkCallback)
//@   requires e != nil && wfx(e) && cb != nil
//@   assigns walkFlag
//@   ensures walkFlag == (old(walkFlag) || hasAnd(e))
//
//@ func (e *BinaryOpExpr) Walk(cb WalkCallback) implements Expression.Walk
//@   props C11
//@   use def_bin(e)
//@ func (e *NotExpr) Walk(cb WalkCallback) implements Expression.Walk
//@   props C11
//@   use def_not(e)
//@ func (e *FieldReferenceExpr) Walk(cb WalkCallback) implements Expression.Walk
//@   props C11
//@   use def_ref(e)
//@ func (e *FieldAccessExpr) Walk(cb WalkCallback) implements Expression.Walk
//@   props C11
//@   use def_acc(e)
//@ func (e *FunctionCallExpr) Walk(cb WalkCallback) implements Expression.Walk
//@   props C11
//@   use def_call(e)
//@   loop 0 (arg)
//@     invariant acc: walkFlag == (old(walkFlag) || hasAnd(e.Name) || anyHasAnd(e.Args, rangeindex + 1))
//@     invariant wf: !someBadChild(e.Args, len(e.Args))
//@ func (e *ListExpr) Walk(cb WalkCallback) implements Expression.Walk
//@   props C11
//@   use def_list(e)
//@   loop 0 (item)
//@     invariant acc: walkFlag == (old(walkFlag) || anyHasAnd(e.List, rangeindex + 1))
//@     invariant wf: !someBadChild(e.List, len(e.List))
//@ func (e *FieldExpr) Walk(cb WalkCallback) implements Expression.Walk
//@   props C11
//@   use def_leaf(e)
//@ func (e *StringExpr) Walk(cb WalkCallback) implements Expression.Walk
//@   props C11
//@   use def_leaf(e)
//@ func (e *NameExpr) Walk(cb WalkCallback) implements Expression.Walk
//@   props C11
//@   use def_leaf(e)
//@ func (e *NumberExpr) Walk(cb WalkCallback) implements Expression.Walk
//@   props C11
//@   use def_leaf(e)
//@ func (e *FloatExpr) Walk(cb WalkCallback) implements Expression.Walk
//@   props C11
//@   use def_leaf(e)
//@ func (e *BoolExpr) Walk(cb WalkCallback) implements Expression.Walk
//@   props C11
//@   use def_leaf(e)
//
// The shortcut is taken only for filters without an AND anywhere in the tree.
//@ func (o *Optimizer) canOptimizeDeletePlanToRemovePlan(mgPlan *MultiGetPlan) (ok bool)
//@   props C11
//@   requires mgPlan != nil && mgPlan.Filter != nil && (mgPlan.Filter.Ast != nil && mgPlan.Filter.Ast.Expr != nil ==> wfx(mgPlan.Filter.Ast.Expr))
//@   closure 0 implements WalkCallback couple hasAndOp = walkFlag
//@   assigns walkFlag
//@   ensures[C11] noand: ok ==> mgPlan.Filter.Ast != nil && mgPlan.Filter.Ast.Expr != nil && !hasAnd(mgPlan.Filter.Ast.Expr)
