//go:build verif

package kvql

// Contracts for the execution context (plan.go: ExecuteCtx). Comment-only.

//@ func (c *ExecuteCtx) Clear()
//@   props C05 C11
//@   requires c != nil
//@   assigns mapof(c.FieldCaches), mapof(c.FieldChunkCaches), mapof(c.FieldChunkKeyCaches)
//@   ensures c.EnableCache && c.FieldCaches != nil ==> (forall q B :: !has(c.FieldCaches, q))
//
//@ func (c *ExecuteCtx) UpdateHit()
//@   props C05
//@   requires c != nil
//@   assigns c.Hit
