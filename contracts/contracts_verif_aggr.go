//go:build verif

package kvql

// Contracts for aggr_func.go (property C09). Comment-only.
//
// Every accumulator is a left fold in scan order: Update is one step of the fold on the value
// of the aggregate's argument for the pair (evalv, converted by convertToNumber), Complete reads
// the result out of the state, Clone yields the initial state sharing nothing mutable.
//   cnum(x) = convertToNumber(x): (integer reading, float reading, is-float)

//@ func convertToNumber(value any) (int64, float64, bool)
//@   pure
//
//@ define argv0(args []Expression, kv KVPair) Any = evalv(args[0], val(kv.Key), val(kv.Value))
//@ define arg0ok(args []Expression, kv KVPair) Bool = evalok(args[0], val(kv.Key), val(kv.Value))
//
// ---------------------------------------------------------------- count
//@ func (f *aggrCountFunc) Update(kv KVPair, args []Expression, ctx *ExecuteCtx) (err error)
//@   props C09
//@   requires f != nil
//@   assigns f.counter
//@   ensures[C09] step: err == nil && f.counter == old(f.counter) + 1
//@ func (f *aggrCountFunc) Complete() (result any, err error)
//@   props C09
//@   requires f != nil
//@   assigns nothing
//@   ensures[C09] out: err == nil && result == AInt(f.counter)
//@ func (f *aggrCountFunc) Clone() (c AggrFunction)
//@   props C09
//@   requires f != nil
//@   assigns nothing
//@   ensures[C09] init: is(c, *aggrCountFunc) && fresh(c) && as(c, *aggrCountFunc).counter == 0
//
// ---------------------------------------------------------------- sum
//@ func (f *aggrSumFunc) Update(kv KVPair, args []Expression, ctx *ExecuteCtx) (err error)
//@   props C09
//@   requires f != nil && len(args) >= 1 && args[0] != nil
//@   assigns f.isum, f.fsum, f.isFloat, ctx.Hit, mapof(ctx.FieldCaches)
//@   ensures[C09] ok: (err == nil) == arg0ok(args, kv)
//@   ensures[C09] step: err == nil ==> f.isum == old(f.isum) + nth(0, convertToNumber(argv0(args, kv))) && f.fsum == fadd(old(f.fsum), nth(1, convertToNumber(argv0(args, kv)))) && f.isFloat == (old(f.isFloat) || nth(2, convertToNumber(argv0(args, kv))))
//@   ensures[C09] keep: err != nil ==> f.isum == old(f.isum) && f.fsum == old(f.fsum) && f.isFloat == old(f.isFloat)
//@ func (f *aggrSumFunc) Complete() (result any, err error)
//@   props C09
//@   requires f != nil
//@   assigns nothing
//@   ensures[C09] out: err == nil && result == ite(f.isFloat, AFlt(f.fsum), AInt(f.isum))
//@ func (f *aggrSumFunc) Clone() (c AggrFunction)
//@   props C09
//@   requires f != nil
//@   assigns nothing
//@   ensures[C09] init: is(c, *aggrSumFunc) && fresh(c) && as(c, *aggrSumFunc).isum == 0 && as(c, *aggrSumFunc).fsum == fzero && !as(c, *aggrSumFunc).isFloat && as(c, *aggrSumFunc).args == f.args
//
// ---------------------------------------------------------------- avg
//@ func (f *aggrAvgFunc) Update(kv KVPair, args []Expression, ctx *ExecuteCtx) (err error)
//@   props C09
//@   requires f != nil && len(args) >= 1 && args[0] != nil
//@   assigns f.isum, f.fsum, f.isFloat, f.count, ctx.Hit, mapof(ctx.FieldCaches)
//@   ensures[C09] ok: (err == nil) == arg0ok(args, kv)
//@   ensures[C09] step: err == nil ==> f.count == old(f.count) + 1 && f.isum == old(f.isum) + nth(0, convertToNumber(argv0(args, kv))) && f.fsum == fadd(old(f.fsum), nth(1, convertToNumber(argv0(args, kv)))) && f.isFloat == (old(f.isFloat) || nth(2, convertToNumber(argv0(args, kv))))
//@   ensures[C09] keep: err != nil ==> f.count == old(f.count) && f.isum == old(f.isum) && f.fsum == old(f.fsum) && f.isFloat == old(f.isFloat)
//@ func (f *aggrAvgFunc) Complete() (result any, err error)
//@   props C09
//@   requires f != nil
//@   assigns nothing
//@   ensures[C09] out: err == nil && result == AFlt(fdiv(ite(f.isFloat, f.fsum, i2f(f.isum)), i2f(f.count)))
//@ func (f *aggrAvgFunc) Clone() (c AggrFunction)
//@   props C09
//@   requires f != nil
//@   assigns nothing
//@   ensures[C09] init: is(c, *aggrAvgFunc) && fresh(c) && as(c, *aggrAvgFunc).isum == 0 && as(c, *aggrAvgFunc).count == 0 && !as(c, *aggrAvgFunc).isFloat
//
// ---------------------------------------------------------------- min / max
//@ func (f *aggrMinFunc) Update(kv KVPair, args []Expression, ctx *ExecuteCtx) (err error)
//@   props C09
//@   requires f != nil && len(args) >= 1 && args[0] != nil
//@   assigns f.imin, f.fmin, f.isFloat, f.first, ctx.Hit, mapof(ctx.FieldCaches)
//@   ensures[C09] ok: (err == nil) == arg0ok(args, kv)
//@   ensures[C09] first: err == nil && !old(f.first) ==> f.first && f.imin == nth(0, convertToNumber(argv0(args, kv))) && f.fmin == nth(1, convertToNumber(argv0(args, kv))) && f.isFloat == nth(2, convertToNumber(argv0(args, kv)))
//@   ensures[C09] intstep: err == nil && old(f.first) && !old(f.isFloat) ==> f.first && ite(old(f.imin) > nth(0, convertToNumber(argv0(args, kv))), f.imin == nth(0, convertToNumber(argv0(args, kv))) && f.fmin == nth(1, convertToNumber(argv0(args, kv))), f.imin == old(f.imin) && f.fmin == old(f.fmin) && f.isFloat == old(f.isFloat))
//@   ensures[C09] fltstep: err == nil && old(f.first) && old(f.isFloat) ==> f.first && ite(flt(nth(1, convertToNumber(argv0(args, kv))), old(f.fmin)), f.imin == nth(0, convertToNumber(argv0(args, kv))) && f.fmin == nth(1, convertToNumber(argv0(args, kv))), f.imin == old(f.imin) && f.fmin == old(f.fmin) && f.isFloat == old(f.isFloat))
//@ func (f *aggrMinFunc) Complete() (result any, err error)
//@   props C09
//@   requires f != nil
//@   assigns nothing
//@   ensures[C09] out: err == nil && result == ite(f.isFloat, AFlt(f.fmin), AInt(f.imin))
//@ func (f *aggrMaxFunc) Update(kv KVPair, args []Expression, ctx *ExecuteCtx) (err error)
//@   props C09
//@   requires f != nil && len(args) >= 1 && args[0] != nil
//@   assigns f.imax, f.fmax, f.isFloat, f.first, ctx.Hit, mapof(ctx.FieldCaches)
//@   ensures[C09] ok: (err == nil) == arg0ok(args, kv)
//@   ensures[C09] first: err == nil && !old(f.first) ==> f.first && f.imax == nth(0, convertToNumber(argv0(args, kv))) && f.fmax == nth(1, convertToNumber(argv0(args, kv))) && f.isFloat == nth(2, convertToNumber(argv0(args, kv)))
//@   ensures[C09] intstep: err == nil && old(f.first) && !old(f.isFloat) ==> f.first && ite(old(f.imax) < nth(0, convertToNumber(argv0(args, kv))), f.imax == nth(0, convertToNumber(argv0(args, kv))) && f.fmax == nth(1, convertToNumber(argv0(args, kv))), f.imax == old(f.imax) && f.fmax == old(f.fmax) && f.isFloat == old(f.isFloat))
//@   ensures[C09] fltstep: err == nil && old(f.first) && old(f.isFloat) ==> f.first && ite(flt(old(f.fmax), nth(1, convertToNumber(argv0(args, kv)))), f.imax == nth(0, convertToNumber(argv0(args, kv))) && f.fmax == nth(1, convertToNumber(argv0(args, kv))), f.imax == old(f.imax) && f.fmax == old(f.fmax) && f.isFloat == old(f.isFloat))
//@ func (f *aggrMaxFunc) Complete() (result any, err error)
//@   props C09
//@   requires f != nil
//@   assigns nothing
//@   ensures[C09] out: err == nil && result == ite(f.isFloat, AFlt(f.fmax), AInt(f.imax))
//
// ---------------------------------------------------------------- limit half of AggregatePlan (C08)
//
// The aggregate plan applies `limit s, n` itself when there is no ORDER BY. Its rows are
// aggrRows[0 .. len) in first-seen order; a.pos rows have been rendered by next()/batch().
//@ define aggInv(a *AggregatePlan) Bool = a != nil && a.prepared && a.Limit >= 0 && a.Start >= 0 && 0 <= a.skips && a.skips <= a.Start && 0 <= a.current && a.current <= a.Limit && (a.skips < a.Start ==> a.current == 0) && 0 <= a.pos && a.pos <= len(a.aggrRows) && (a.current < a.Limit ==> a.pos == a.skips + a.current)
//
//@ func (a *AggregatePlan) next(ctx *ExecuteCtx) (row []Column, err error)
//@   trusted thin contract (cursor bookkeeping only); the rendering of a row is not yet verified
//@   requires a != nil && 0 <= a.pos
//@   assigns a.pos, allof(FunctionCallExpr.Result), ctx.Hit, mapof(ctx.FieldCaches)
//@   ensures err == nil ==> (isnil(row) == (old(a.pos) >= len(a.aggrRows))) && (isnil(row) ==> a.pos == old(a.pos)) && (!isnil(row) ==> a.pos == old(a.pos) + 1)
//@   ensures err != nil ==> isnil(row) && a.pos == old(a.pos) + 1
//
//@ func (a *AggregatePlan) batch(ctx *ExecuteCtx) (rows [][]Column, err error)
//@   trusted thin contract (cursor bookkeeping only); the rendering of a row is not yet verified
//@   requires a != nil && 0 <= a.pos && PlanBatchSize >= 1
//@   assigns a.pos, allof(FunctionCallExpr.Result), ctx.Hit, mapof(ctx.FieldCaches)
//@   ensures err == nil ==> a.pos == old(a.pos) + len(rows) && a.pos <= len(a.aggrRows) && ((len(rows) == 0) == (old(a.pos) >= len(a.aggrRows))) && fresh(rows)
//@   ensures err != nil ==> len(rows) == 0
//
//@ func (a *AggregatePlan) Next(ctx *ExecuteCtx) (row []Column, err error)
//@   props C08
//@   requires aggInv(a)
//@   assigns a.pos, a.skips, a.current, allof(FunctionCallExpr.Result), ctx.Hit, mapof(ctx.FieldCaches)
//@   ensures[C08] inv: err == nil ==> aggInv(a)
//@   ensures[C08] row: err == nil && !isnil(row) ==> a.current == old(a.current) + 1 && a.pos == a.Start + old(a.current) + 1
//@   ensures[C08] end: err == nil && isnil(row) ==> a.current == old(a.current) && (old(a.current) >= a.Limit || a.Start + old(a.current) >= len(a.aggrRows))
//@   loop 0
//@     invariant lim: a.prepared && a.current == old(a.current) && 0 <= a.skips && a.skips <= a.Start && (a.skips < a.Start ==> old(a.current) == 0) && 0 <= a.pos && a.pos <= len(a.aggrRows) && (a.current < a.Limit ==> a.pos == a.skips + a.current)
//
//@ func (a *AggregatePlan) Batch(ctx *ExecuteCtx) (ret [][]Column, err error)
//@   props C08
//@   requires aggInv(a) && PlanBatchSize >= 1
//@   assigns a.pos, a.skips, a.current, allof(FunctionCallExpr.Result), ctx.Hit, mapof(ctx.FieldCaches)
//@   ensures[C08] inv: err == nil ==> aggInv(a)
//@   ensures[C08] count: err == nil ==> a.current == old(a.current) + len(ret)
//@   ensures[C08] end: err == nil && len(ret) == 0 ==> old(a.current) >= a.Limit || a.Start + old(a.current) >= len(a.aggrRows)
//@   loop 0
//@     invariant lim: a.prepared && a.current == old(a.current) && 0 <= a.skips && a.skips <= a.Start && (a.skips < a.Start ==> old(a.current) == 0) && 0 <= a.pos && a.pos <= len(a.aggrRows) && (a.current < a.Limit ==> a.pos == a.skips + a.current)
//@     invariant norows: len(rows) == 0
//@     invariant quiet: len(ret) == 0 && count == 0 && !finish
//@   loop 1 (row)
//@     invariant emitted: len(ret) == count && count == a.current - old(a.current) && count >= 0 && a.current <= a.Limit
//@     invariant st: a.prepared && a.skips == a.Start && count == rangeindex + 1 && !finish && 0 <= a.pos && a.pos <= len(a.aggrRows)
//@     invariant src: old(a.current) < a.Limit ==> a.pos == a.Start + old(a.current) + len(rows)
//@   loop 2
//@     invariant emitted: len(ret) == count && count == a.current - old(a.current) && count >= 0 && a.current <= a.Limit
//@     invariant st: a.prepared && a.skips == a.Start && 0 <= a.pos && a.pos <= len(a.aggrRows) && (a.current < a.Limit ==> a.pos == a.Start + a.current)
//@     invariant fin: (!finish ==> a.current < a.Limit) && (finish ==> a.current >= a.Limit || count >= PlanBatchSize || a.Start + a.current >= len(a.aggrRows))
//@   loop 3 (row)
//@     invariant emitted: len(ret) == count && count == a.current - old(a.current) && count >= 0 && a.current <= a.Limit
//@     invariant st: a.prepared && a.skips == a.Start && !finish && a.current < a.Limit && len(rows) > 0 && 0 <= a.pos && a.pos <= len(a.aggrRows)
//@     invariant src: a.pos == a.Start + a.current - (rangeindex + 1) + len(rows)
