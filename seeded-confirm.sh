#!/bin/bash
# usage: seeded-confirm.sh <id> <dir-with-out/>   — confirms a seeded change in a scratch copy of /repo and stores it
set -u
id=$1; src=$2
export GOFLAGS=-mod=mod GOPROXY=off GOSUMDB=off GOTOOLCHAIN=local
w=/tmp/confirm-$id; rm -rf $w; mkdir -p $w
git -C /repo archive HEAD | tar -x -C $w
rm -f $w/contracts_verif_*.go
cd $w
if ! git apply --check $src/out/patch.diff 2>/dev/null && ! patch -p1 --dry-run < $src/out/patch.diff >/dev/null 2>&1; then echo "PATCH DOES NOT APPLY"; rm -rf $w; exit 1; fi
cp $src/out/seeded_demo_test.go $w/seeded_demo_test.go
base=$(go test -vet=off -count=1 -run 'Seeded|seeded' . 2>&1 | tail -3)
patch -p1 -s < $src/out/patch.diff
build=$(go build ./... 2>&1 | tail -2)
mv seeded_demo_test.go /tmp/seeded_demo_$id.go
suite=$(go test -vet=off -count=1 ./... 2>&1 | tail -1)
mv /tmp/seeded_demo_$id.go seeded_demo_test.go
demo=$(go test -vet=off -count=1 . 2>&1 | grep -E "^(--- FAIL|FAIL|ok|panic)" | head -5)
echo "unchanged+demo: $base"; echo "build: $build"; echo "suite with change: $suite"; echo "demo with change: $demo"
mkdir -p /verif/seeded/$id
cp $src/out/patch.diff $src/out/seeded_demo_test.go /verif/seeded/$id/
python3 - "$id" "$src" "$base" "$suite" "$demo" <<'PY'
import json,sys
id,src,base,suite,demo=sys.argv[1:6]
m=json.load(open(src+'/out/meta.json'))
m['confirmed_by_builder']={'demo_on_unchanged_tree':base,'existing_suite_with_change':suite,'demo_with_change':demo}
json.dump(m,open('/verif/seeded/%s/meta.json'%id,'w'),indent=1)
PY
cd /; rm -rf $w
