package main

import (
	"fmt"
	"go/types"
	"sort"
	"strings"

	"golang.org/x/tools/go/ssa"
)

// engineErr is raised (as a panic) when a function under contract uses a
// construct outside the supported subset or a contract cannot be bound.
type engineErr struct{ msg string }

func (e engineErr) Error() string { return e.msg }

func fail(format string, args ...any) {
	panic(engineErr{fmt.Sprintf(format, args...)})
}

// ---------- heap versions ----------

const (
	hvInit = iota
	hvStore
	hvFrame // parent unchanged at refs <= frontier, except listed refs
	hvHavoc
	hvMerge
)

type HV struct {
	id       int
	name     string // heap name
	term     string
	sort     string
	kind     int
	parents  []*HV
	frontier string
	except   []string
	guard    string
	stRef    string // hvStore of a single location: the reference written ...
	stVal    string // ... and the value (read-over-write shortcut)
}

// State is the symbolic store: values of source variables (naive-form cells)
// and the current version of every heap array / global / ghost.
type State struct {
	cells map[*ssa.Alloc]T
	heap  map[string]*HV
}

func (st *State) clone() *State {
	n := &State{cells: make(map[*ssa.Alloc]T, len(st.cells)), heap: make(map[string]*HV, len(st.heap))}
	for k, v := range st.cells {
		n.cells[k] = v
	}
	for k, v := range st.heap {
		n.heap[k] = v
	}
	return n
}

// Oblig is one proof obligation: under the script's assumptions, pc implies goal.
type Oblig struct {
	Name   string
	Kind   string   // ensures | requires | inv.establish | inv.preserve | panic.* | frame | lemma | cover
	Props  []string // properties this obligation belongs to (empty = structural, belongs to all owners)
	PC     string
	Goal   string
	Clause string // contract text / description
	Fn     string
	Pos    string
	Script *Script
	Cover  bool // cover query: expected sat
	Auto   bool // Houdini candidate (failure drops the candidate, is not reported)
	AutoID string
	Ranges [][2]int // slices of the script this obligation may depend on (nil = all of it)
}

// address of a memory location (never an SMT value)
type addr struct {
	kind string // cell | field | elem | boxed | global
	cell *ssa.Alloc
	heap string // heap name for field / elem / boxed / global
	ref  string
	idx  string
	path []pathStep // struct-value field path below the base location
	ty   types.Type // type of the value stored at the full address
	bty  types.Type // type of the base location
}

type pathStep struct {
	st    *types.Struct
	named string
	field int
}

// Gen generates the obligations of one function (or lemma).
type Gen struct {
	P      *Program
	Specs  *Specs
	s      *Script
	fn     *ssa.Function
	spec   *FuncSpec
	obs    []*Oblig
	hvN    int
	heapSo map[string]string
	inits  map[string]*HV
	frameI map[string]bool // emitted frame instances
	tags   map[string]int
	warn   []string
	// Houdini
	dropped map[string]bool
	cands   []string
	// book-keeping
	touched    map[string]bool // heaps whose version changed in this function
	havocked   []string        // uncontracted callees
	trustedUse map[string]bool
	structs    map[string]*types.Struct
	props      []string
	wantProp   string
	depth      int
	memSeen    map[string]bool
	entry      *State
	ghostVals  map[string]CV
	paramVals  map[string]CV
	retNames   []string
	foralls    []*forallFact
	exIDs      map[string]string
	instTerms  map[string][]string
	instGen    int
	ifaceUse   map[string]bool
	heapRead   map[string]bool
	constMapsUsed map[string]bool
	postStart     int // > 0 while the return sites are being processed: script length when that began
	retCut        int // script length at the return site being processed
}

func (g *Gen) newHV(name, so, term string, kind int, parents ...*HV) *HV {
	g.hvN++
	return &HV{id: g.hvN, name: name, term: term, sort: so, kind: kind, parents: parents}
}

// ---------- sorts ----------

func isByteSlice(t types.Type) bool {
	if sl, ok := t.Underlying().(*types.Slice); ok {
		// only []byte itself is a byte string; []Type (type Type byte) is an ordinary slice
		b, ok := sl.Elem().(*types.Basic)
		return ok && (b.Kind() == types.Byte || b.Kind() == types.Uint8)
	}
	return false
}

func isString(t types.Type) bool {
	b, ok := t.Underlying().(*types.Basic)
	return ok && b.Info()&types.IsString != 0
}

func isEmptyIface(t types.Type) bool {
	i, ok := t.Underlying().(*types.Interface)
	return ok && i.NumMethods() == 0
}

func typeName(t types.Type) string {
	return types.TypeString(t, func(p *types.Package) string { return "" })
}

func (g *Gen) sortOf(t types.Type) string {
	switch u := t.Underlying().(type) {
	case *types.Basic:
		switch {
		case u.Info()&types.IsBoolean != 0:
			return "Bool"
		case u.Info()&types.IsInteger != 0:
			return "Int"
		case u.Info()&types.IsFloat != 0:
			return "F64"
		case u.Info()&types.IsString != 0:
			return "NB"
		case u.Kind() == types.UnsafePointer:
			return "Int"
		case u.Kind() == types.UntypedNil:
			return "Int"
		}
	case *types.Pointer, *types.Map, *types.Signature, *types.Chan:
		return "Int"
	case *types.Interface:
		if u.NumMethods() == 0 {
			return "Any"
		}
		return "Int"
	case *types.Slice:
		if isByteSlice(t) {
			return "NB"
		}
		return "Slc"
	case *types.Struct:
		return g.structSort(t)
	case *types.Tuple:
		return "Tuple"
	case *types.Array:
		return "Arr." + sanitize(typeName(u.Elem()))
	}
	fail("unsupported type %s", t)
	return ""
}

func (g *Gen) structSort(t types.Type) string {
	name := sanitize(typeName(t))
	if _, ok := t.(*types.Named); !ok {
		if st, ok := t.Underlying().(*types.Struct); ok && st.NumFields() == 0 {
			name = "unit"
		} else {
			name = "anon" + fmt.Sprint(len(g.structs))
			for n, s := range g.structs {
				if types.Identical(s, t.Underlying()) {
					name = n
				}
			}
		}
	}
	so := "S." + name
	if _, ok := g.s.dts[so]; ok {
		return so
	}
	st := t.Underlying().(*types.Struct)
	g.structs[name] = st
	g.s.dts[so] = "" // reserve (recursion guard)
	var fs []string
	for i := 0; i < st.NumFields(); i++ {
		fs = append(fs, fmt.Sprintf("(%s.%s %s)", name, st.Field(i).Name(), g.sortOf(st.Field(i).Type())))
	}
	ctor := "mk." + name
	if len(fs) == 0 {
		g.s.dts[so] = fmt.Sprintf("(declare-datatypes ((%s 0)) (((%s))))", so, ctor)
	} else {
		g.s.dts[so] = fmt.Sprintf("(declare-datatypes ((%s 0)) (((%s %s))))", so, ctor, strings.Join(fs, " "))
	}
	g.s.dtOrder = append(g.s.dtOrder, so)
	return so
}

func structName(so string) string { return strings.TrimPrefix(so, "S.") }

func (g *Gen) zero(t types.Type) T {
	so := g.sortOf(t)
	switch so {
	case "Bool":
		return T{"false", so}
	case "Int":
		return T{"0", so}
	case "F64":
		return T{"fzero", so}
	case "NB":
		if isByteSlice(t) {
			return T{"(mk true eps)", so}
		}
		return T{"(mk false eps)", so}
	case "Slc":
		return T{"(slc 0 0 0 true)", so}
	case "Any":
		return T{"ANil", so}
	}
	if strings.HasPrefix(so, "S.") {
		st := t.Underlying().(*types.Struct)
		var fs []string
		for i := 0; i < st.NumFields(); i++ {
			fs = append(fs, g.zero(st.Field(i).Type()).S)
		}
		return T{app("mk."+structName(so), fs...), so}
	}
	fail("no zero value for %s", t)
	return T{}
}

// tag is the dynamic-type id of a Go type (used inside interface values).
func (g *Gen) tag(t types.Type) string {
	n := typeName(t)
	if _, ok := g.tags[n]; !ok {
		g.tags[n] = len(g.tags) + 1
	}
	return "tag." + sanitize(n)
}

func (g *Gen) tagDecls() string {
	var ns []string
	for n := range g.tags {
		ns = append(ns, n)
	}
	sort.Strings(ns)
	var sb strings.Builder
	for i, n := range ns {
		sb.WriteString(fmt.Sprintf("(define-fun tag.%s () Int %d) ; %s\n", sanitize(n), i+1, n))
	}
	return sb.String()
}

// ---------- heap access ----------

func (g *Gen) heapSort(name string) string {
	so, ok := g.heapSo[name]
	if !ok {
		fail("unknown heap %s", name)
	}
	return so
}

func (g *Gen) declHeap(name, so string) {
	if old, ok := g.heapSo[name]; ok {
		if old != so {
			fail("heap %s used at sorts %s and %s", name, old, so)
		}
		return
	}
	g.heapSo[name] = so
}

func (g *Gen) heapInit(name string) *HV {
	if hv, ok := g.inits[name]; ok {
		return hv
	}
	so := g.heapSort(name)
	t := g.s.declNamed("H0."+sanitize(name), so)
	if name == "alloc" {
		g.s.assume("(>= " + t.S + " 0)") // the allocation frontier is a count of objects
	}
	hv := g.newHV(name, so, t.S, hvInit)
	g.inits[name] = hv
	return hv
}

func (g *Gen) hv(st *State, name string) *HV {
	if hv, ok := st.heap[name]; ok {
		return hv
	}
	return g.heapInit(name)
}

func fieldHeap(named string, field string) string { return "H." + named + "." + field }

// fieldHeapOf declares (if needed) and names the heap array of a struct field.
func (g *Gen) fieldHeapOf(ptrTo types.Type, field int) (string, types.Type) {
	nt, ok := ptrTo.(*types.Named)
	st, ok2 := ptrTo.Underlying().(*types.Struct)
	if !ok2 {
		fail("field access on non-struct %s", ptrTo)
	}
	name := "anon"
	if ok {
		name = nt.Obj().Name()
	} else {
		name = structName(g.structSort(ptrTo))
	}
	f := st.Field(field)
	h := fieldHeap(name, f.Name())
	g.declHeap(h, "(Array Int "+g.sortOf(f.Type())+")")
	return h, f.Type()
}

func (g *Gen) elemHeapOf(elem types.Type) string {
	es := g.sortOf(elem)
	n := "E." + sanitize(typeName(elem))
	if es == "NB" {
		n = "E.NB"
	}
	g.declHeap(n, "(Array Int (Array Int "+es+"))")
	return n
}

func (g *Gen) boxHeapOf(t types.Type) string {
	n := "C." + sanitize(typeName(t))
	g.declHeap(n, "(Array Int "+g.sortOf(t)+")")
	return n
}

// instFrames emits, for a read of heap version hv at ref r, the instances of the
// frame facts of every framed havoc in hv's history (quantifier-free framing).
func (g *Gen) instFrames(hv *HV, r string) {
	seen := map[int]bool{}
	var walk func(h *HV)
	walk = func(h *HV) {
		if h == nil || seen[h.id] {
			return
		}
		seen[h.id] = true
		switch h.kind {
		case hvFrame:
			key := fmt.Sprintf("%d@%s", h.id, r)
			if g.frameI[key] {
				g.s.hit("fr|" + key)
			} else {
				g.frameI[key] = true
				fstart := len(g.s.lines)
				conds := []string{"(<= " + r + " " + h.frontier + ")"}
				for _, e := range h.except {
					conds = append(conds, not(eq(r, e)))
				}
				g.s.assumeUnder(h.guard, imp(and(conds...), eq(app("select", h.term, r), app("select", h.parents[0].term, r))))
				g.s.rec("fr|"+key, fstart)
			}
			walk(h.parents[0])
		case hvStore, hvMerge:
			for _, p := range h.parents {
				walk(p)
			}
		}
	}
	walk(hv)
}

func (g *Gen) readHeap(st *State, name, ref string) string {
	hv := g.hv(st, name)
	if g.heapRead != nil && hv.kind == hvInit {
		g.heapRead[name] = true
	}
	if ref != "" && hv.kind == hvStore && hv.stRef == ref && hv.stVal != "" {
		return hv.stVal // reading back what was just written to this very location
	}
	if ref != "" && strings.HasPrefix(g.heapSort(name), "(Array") {
		g.instFrames(hv, ref)
		if ref != "RK" {
			g.instFrames(hv, "RK")
		}
		return app("select", hv.term, ref)
	}
	return hv.term
}

func (g *Gen) writeHeap(st *State, name, ref, val string) {
	hv := g.hv(st, name)
	g.touched[name] = true
	var t T
	if ref == "" {
		t = g.s.def(name, T{val, hv.sort})
	} else {
		t = g.s.def(name, T{app("store", hv.term, ref, val), hv.sort})
	}
	nv := g.newHV(name, hv.sort, t.S, hvStore, hv)
	if ref != "" {
		nv.stRef, nv.stVal = ref, val
	}
	st.heap[name] = nv
}

func (g *Gen) setHeap(st *State, name string, hv *HV) {
	g.touched[name] = true
	st.heap[name] = hv
}

func (g *Gen) alloc(st *State) string {
	g.declHeap("alloc", "Int")
	return g.hv(st, "alloc").term
}

// fresh advances the allocation frontier and returns the new reference.
func (g *Gen) fresh(st *State) string {
	a := g.alloc(st)
	n := g.s.def("alloc", T{"(+ " + a + " 1)", "Int"})
	st.heap["alloc"] = g.newHV("alloc", "Int", n.S, hvStore, g.hv(st, "alloc"))
	return n.S
}

// typeInv states the language-level invariants of a value of Go type t in state
// st: references are allocated (<= frontier), nil byte strings are empty,
// lengths are non-negative, small integer types are in range.
func (g *Gen) typeInv(st *State, v T, t types.Type) string {
	if t == nil {
		return "true"
	}
	a := g.alloc(st)
	switch u := t.Underlying().(type) {
	case *types.Basic:
		switch u.Kind() {
		case types.Uint8:
			return and("(<= 0 "+v.S+")", "(<= "+v.S+" 255)")
		case types.Uint16:
			return and("(<= 0 "+v.S+")", "(<= "+v.S+" 65535)")
		case types.Uint, types.Uint32, types.Uint64, types.Uintptr:
			return "(<= 0 " + v.S + ")"
		case types.Int, types.Int64:
			return and("(<= (- 9223372036854775808) "+v.S+")", "(<= "+v.S+" 9223372036854775807)")
		case types.Int32:
			return and("(<= (- 2147483648) "+v.S+")", "(<= "+v.S+" 2147483647)")
		case types.String:
			return "(not (isnil " + v.S + "))"
		}
	case *types.Pointer, *types.Map:
		return and("(<= 0 "+v.S+")", "(<= "+v.S+" "+a+")")
	case *types.Interface:
		if u.NumMethods() > 0 {
			return and("(<= 0 "+v.S+")", "(<= "+v.S+" "+a+")")
		}
	case *types.Slice:
		if isByteSlice(t) {
			return imp("(isnil "+v.S+")", "(= (val "+v.S+") eps)")
		}
		return and("(<= 0 (ptr "+v.S+"))", "(<= (ptr "+v.S+") "+a+")", "(<= 0 (off "+v.S+"))", "(<= 0 (len_ "+v.S+"))",
			imp("(snil "+v.S+")", and("(= (len_ "+v.S+") 0)", "(= (ptr "+v.S+") 0)")), imp("(not (snil "+v.S+"))", "(> (ptr "+v.S+") 0)"))
	case *types.Struct:
		var cs []string
		so := g.sortOf(t)
		for i := 0; i < u.NumFields(); i++ {
			fv := T{app(structName(so)+"."+u.Field(i).Name(), v.S), g.sortOf(u.Field(i).Type())}
			cs = append(cs, g.typeInv(st, fv, u.Field(i).Type()))
		}
		return and(cs...)
	}
	return "true"
}
