package main

import (
	"encoding/json"
	"fmt"
	"go/types"
	"os"
	"path/filepath"
	"sort"
	"strings"
	"time"

	"golang.org/x/tools/go/ssa"
)

// C19 — frame (ownership) theorem, decided syntactically over the go/ssa form of the
// whole package: outside the registration API, no instruction writes memory that is a
// package-level variable or is reachable from one. Deductive reasoning about frames is
// schedule-independent: statements that share only memory nobody writes cannot race on it.
//
// The analysis is a taint fixpoint:
//   shared(v)  v is the address of a package-level variable, or a reference (pointer, map,
//              slice, interface, func) loaded out of shared memory, or derived from such a
//              value by field/index addressing, lookup, conversion, phi, or returned by a
//              package function whose summary says it returns shared memory;
//   writes(f,i) function f may write through its i-th parameter (directly or via callees).
// An obligation is generated for every Store, MapUpdate, append/copy/delete/clear and every
// call argument with a write summary; it is discharged when the target is not shared.

type frameAnalysis struct {
	p          *Program
	retShared  map[*ssa.Function]bool
	writesPar  map[*ssa.Function]map[int]bool
	shared     map[ssa.Value]bool
	exempt     map[string]bool
	obligation int
	violations []string
	samples    []string
	perFunc    map[string]int
}

func isRefType(t types.Type) bool {
	switch t.Underlying().(type) {
	case *types.Pointer, *types.Map, *types.Slice, *types.Interface, *types.Signature, *types.Chan:
		return true
	}
	return false
}

// atomicOrSync: values of sync / sync/atomic types are meant to be shared.
func atomicOrSync(t types.Type) bool {
	s := t.String()
	return strings.Contains(s, "sync.") || strings.Contains(s, "sync/atomic.")
}

func (fa *frameAnalysis) funcs() []*ssa.Function {
	var fs []*ssa.Function
	seen := map[*ssa.Function]bool{}
	var add func(f *ssa.Function)
	add = func(f *ssa.Function) {
		if f == nil || seen[f] || len(f.Blocks) == 0 {
			return
		}
		seen[f] = true
		fs = append(fs, f)
		for _, a := range f.AnonFuncs {
			add(a)
		}
	}
	for _, f := range fa.p.Funcs {
		add(f)
	}
	if init := fa.p.SPkg.Func("init"); init != nil {
		add(init)
	}
	sort.Slice(fs, func(i, j int) bool { return fs[i].String() < fs[j].String() })
	return fs
}

// isShared computes shared(v) within one function, given the current summaries.
func (fa *frameAnalysis) sharedIn(fn *ssa.Function) map[ssa.Value]bool {
	sh := map[ssa.Value]bool{}
	changed := true
	mark := func(v ssa.Value) {
		if !sh[v] {
			sh[v] = true
			changed = true
		}
	}
	cellShared := map[*ssa.Alloc]bool{} // local variables (naive-form cells) holding a shared reference
	for changed {
		changed = false
		for _, b := range fn.Blocks {
			for _, ins := range b.Instrs {
				if st, ok := ins.(*ssa.Store); ok {
					if a, ok := st.Addr.(*ssa.Alloc); ok && sh[st.Val] && !cellShared[a] {
						cellShared[a] = true
						changed = true
					}
					continue
				}
				v, ok := ins.(ssa.Value)
				if !ok {
					continue
				}
				switch i := ins.(type) {
				case *ssa.UnOp:
					if i.Op.String() == "*" {
						if a, ok := i.X.(*ssa.Alloc); ok {
							if cellShared[a] && isRefType(i.Type()) {
								mark(v)
							}
							continue
						}
						if _, isG := i.X.(*ssa.Global); isG || sh[i.X] {
							if isRefType(i.Type()) && !atomicOrSync(i.Type()) {
								mark(v)
							}
						}
					}
				case *ssa.FieldAddr:
					if _, isG := i.X.(*ssa.Global); isG || sh[i.X] {
						mark(v)
					}
				case *ssa.IndexAddr:
					if _, isG := i.X.(*ssa.Global); isG || sh[i.X] {
						mark(v)
					}
				case *ssa.Lookup:
					if sh[i.X] && (isRefType(i.Type()) || i.CommaOk) {
						mark(v)
					}
				case *ssa.Extract:
					if sh[i.Tuple] && isRefType(i.Type()) {
						mark(v)
					}
				case *ssa.Field:
					if sh[i.X] && isRefType(i.Type()) {
						mark(v)
					}
				case *ssa.Index:
					if sh[i.X] && isRefType(i.Type()) {
						mark(v)
					}
				case *ssa.Slice:
					if sh[i.X] {
						mark(v)
					}
				case *ssa.ChangeType:
					if sh[i.X] {
						mark(v)
					}
				case *ssa.ChangeInterface:
					if sh[i.X] {
						mark(v)
					}
				case *ssa.MakeInterface:
					if sh[i.X] {
						mark(v)
					}
				case *ssa.TypeAssert:
					if sh[i.X] {
						mark(v)
					}
				case *ssa.Phi:
					for _, e := range i.Edges {
						if sh[e] {
							mark(v)
						}
					}
				case *ssa.Next:
					if sh[i.Iter] {
						mark(v)
					}
				case *ssa.Range:
					if sh[i.X] {
						mark(v)
					}
				case *ssa.Call:
					if c := i.Call.StaticCallee(); c != nil && fa.retShared[c] {
						mark(v)
					}
				}
			}
		}
	}
	// a Global's address itself counts as shared wherever it is used as a store target
	return sh
}

func (fa *frameAnalysis) isSharedTarget(sh map[ssa.Value]bool, v ssa.Value) bool {
	if g, ok := v.(*ssa.Global); ok {
		return !atomicOrSync(g.Type())
	}
	return sh[v]
}

func (fa *frameAnalysis) run() {
	fs := fa.funcs()
	fa.retShared = map[*ssa.Function]bool{}
	fa.writesPar = map[*ssa.Function]map[int]bool{}
	// summaries to a fixpoint
	for changed := true; changed; {
		changed = false
		for _, fn := range fs {
			sh := fa.sharedIn(fn)
			for _, b := range fn.Blocks {
				for _, ins := range b.Instrs {
					if r, ok := ins.(*ssa.Return); ok {
						for _, res := range r.Results {
							if (sh[res] || isGlobal(res)) && !fa.retShared[fn] {
								fa.retShared[fn] = true
								changed = true
							}
						}
					}
				}
			}
			// parameters written through
			pd := fa.paramDerived(fn)
			for _, b := range fn.Blocks {
				for _, ins := range b.Instrs {
					for _, tgt := range fa.writeTargets(ins) {
						if k, ok := pd[tgt]; ok {
							if fa.writesPar[fn] == nil {
								fa.writesPar[fn] = map[int]bool{}
							}
							if !fa.writesPar[fn][k] {
								fa.writesPar[fn][k] = true
								changed = true
							}
						}
					}
				}
			}
		}
	}
	// escape of shared objects: a function must not return an object reachable from a
	// package-level variable when the package's own exported API writes objects of that type
	// through a receiver / parameter (a client calling that API on the returned object would
	// write shared memory)
	mutable := map[string]bool{}
	for _, fn := range fs {
		if fn.Object() == nil || !fn.Object().Exported() {
			continue
		}
		for k := range fa.writesPar[fn] {
			if k < len(fn.Params) {
				if pt, ok := fn.Params[k].Type().Underlying().(*types.Pointer); ok {
					if nt, ok := pt.Elem().(*types.Named); ok {
						mutable[nt.Obj().Name()] = true
					}
				}
			}
		}
	}
	all := append([]*ssa.Function{}, fs...)
	if in := fa.p.SPkg.Func("init"); in != nil {
		all = append(all, in)
	}
	// dynAny: the concrete types a value may hold (whatever its provenance)
	var dynAny func(v ssa.Value, depth int) []types.Type
	dynAny = func(v ssa.Value, depth int) []types.Type {
		if depth > 6 {
			return nil
		}
		switch x := v.(type) {
		case *ssa.MakeInterface:
			return []types.Type{x.X.Type()}
		case *ssa.ChangeInterface:
			return dynAny(x.X, depth+1)
		case *ssa.Call:
			if callee := x.Call.StaticCallee(); callee != nil && callee.Pkg == fa.p.SPkg {
				var out []types.Type
				for _, b := range callee.Blocks {
					for _, ins := range b.Instrs {
						if r, ok := ins.(*ssa.Return); ok {
							for _, res := range r.Results {
								out = append(out, dynAny(res, depth+1)...)
							}
						}
					}
				}
				return out
			}
		case *ssa.UnOp:
			if al, ok := x.X.(*ssa.Alloc); ok {
				var out []types.Type
				for _, r := range *al.Referrers() {
					if st, ok := r.(*ssa.Store); ok && st.Addr == al {
						out = append(out, dynAny(st.Val, depth+1)...)
					}
				}
				return out
			}
		}
		if _, isIface := v.Type().Underlying().(*types.Interface); !isIface {
			return []types.Type{v.Type()}
		}
		return nil
	}
	shCache := map[*ssa.Function]map[ssa.Value]bool{}
	shOf := func(fn *ssa.Function) map[ssa.Value]bool {
		if m, ok := shCache[fn]; ok {
			return m
		}
		m := fa.sharedIn(fn)
		shCache[fn] = m
		return m
	}
	// dynShared: the concrete types of the SHARED objects that may flow into v (a value of fn)
	var dynShared func(fn *ssa.Function, v ssa.Value, depth int) []types.Type
	dynShared = func(fn *ssa.Function, v ssa.Value, depth int) []types.Type {
		if depth > 6 || !shOf(fn)[v] {
			return nil
		}
		switch x := v.(type) {
		case *ssa.MakeInterface:
			if shOf(fn)[x.X] {
				return []types.Type{x.X.Type()}
			}
			return nil
		case *ssa.ChangeInterface:
			return dynShared(fn, x.X, depth+1)
		case *ssa.Call:
			if callee := x.Call.StaticCallee(); callee != nil && callee.Pkg == fa.p.SPkg {
				var out []types.Type
				for _, b := range callee.Blocks {
					for _, ins := range b.Instrs {
						if r, ok := ins.(*ssa.Return); ok {
							for _, res := range r.Results {
								out = append(out, dynShared(callee, res, depth+1)...)
							}
						}
					}
				}
				return out
			}
			return nil
		case *ssa.UnOp:
			if al, ok := x.X.(*ssa.Alloc); ok {
				var out []types.Type
				for _, r := range *al.Referrers() {
					if st, ok := r.(*ssa.Store); ok && st.Addr == al {
						out = append(out, dynShared(fn, st.Val, depth+1)...)
					}
				}
				return out
			}
			if gl, ok := x.X.(*ssa.Global); ok {
				// everything ever stored into the package-level variable
				var out []types.Type
				for _, fn2 := range all {
					for _, b := range fn2.Blocks {
						for _, ins := range b.Instrs {
							if st, ok := ins.(*ssa.Store); ok && st.Addr == gl {
								out = append(out, dynAny(st.Val, 0)...)
							}
						}
					}
				}
				return out
			}
		}
		if _, isIface := v.Type().Underlying().(*types.Interface); !isIface {
			return []types.Type{v.Type()}
		}
		return nil
	}
	fa.perFunc = map[string]int{}
	for _, fn := range fs {
		if fn.Name() == "init" || strings.HasPrefix(fn.Name(), "init#") {
			continue
		}
		sh := fa.sharedIn(fn)
		for _, b := range fn.Blocks {
			for _, ins := range b.Instrs {
				r, ok := ins.(*ssa.Return)
				if !ok {
					continue
				}
				for _, res := range r.Results {
					if !sh[res] {
						continue
					}
					for _, t := range dynShared(fn, res, 0) {
						if pt, ok := t.Underlying().(*types.Pointer); ok {
							if nt, ok := pt.Elem().(*types.Named); ok && mutable[nt.Obj().Name()] {
								fa.obligation++
								pos := fa.p.Prog.Fset.Position(ins.Pos())
								fa.violations = append(fa.violations, fmt.Sprintf("%s: returns a shared *%s, a type the package's exported API writes through its receiver / parameter  [%s:%d]", funcKey(fn), nt.Obj().Name(), filepath.Base(pos.Filename), pos.Line))
							}
						}
					}
				}
			}
		}
	}
	// foreign byte buffers: append(dst, ...) on a []byte may write behind len(dst) into dst's backing
	// array. That is harmless for a buffer the function allocated (or was handed as a parameter by
	// its caller, who owns it), and a write into memory the statement does not own when dst came
	// out of an evaluation, a type assertion or a storage call: two statements over one store would
	// both write behind the same stored slice (seeded change C01-3).
	var foreign func(v ssa.Value, depth int) bool
	inCallee := map[*ssa.Function]bool{}
	// result idx of a call: fresh when the callee is another package's function (json.Marshal,
	// strconv: fresh buffers) or a function of this package every return of which yields a fresh
	// buffer at idx; foreign for interface calls (evaluation results) and everything else.
	foreignResult := func(c *ssa.Call, idx int, depth int) bool {
		callee := c.Call.StaticCallee()
		if callee == nil {
			return true
		}
		if callee.Pkg != fa.p.SPkg {
			return false
		}
		if callee.Blocks == nil || inCallee[callee] || depth > 6 {
			return true
		}
		inCallee[callee] = true
		defer delete(inCallee, callee)
		for _, b := range callee.Blocks {
			for _, ins := range b.Instrs {
				if r, ok := ins.(*ssa.Return); ok && idx < len(r.Results) && foreign(r.Results[idx], depth+2) {
					return true
				}
			}
		}
		return false
	}
	foreign = func(v ssa.Value, depth int) bool {
		if depth > 8 {
			return false
		}
		switch x := v.(type) {
		case *ssa.Extract:
			if c, ok := x.Tuple.(*ssa.Call); ok {
				return foreignResult(c, x.Index, depth)
			}
			return foreign(x.Tuple, depth+1)
		case *ssa.Parameter:
			return inCallee[x.Parent()] // the caller's buffer: foreign when handed back by a callee
		case *ssa.TypeAssert, *ssa.Lookup, *ssa.Field:
			return true
		case *ssa.Call:
			if b, ok := x.Call.Value.(*ssa.Builtin); ok && b.Name() == "append" {
				return foreign(x.Call.Args[0], depth+1)
			}
			if callee := x.Call.StaticCallee(); callee != nil {
				n := callee.String()
				if strings.Contains(n, ".Append") || strings.HasPrefix(n, "strconv.Append") || strings.HasPrefix(n, "fmt.Append") {
					for _, a := range x.Call.Args { // (the receiver comes first for methods)
						if isByteSlice(a.Type()) {
							return foreign(a, depth+1)
						}
					}
					return false
				}
			}
			return foreignResult(x, 0, depth)
		case *ssa.UnOp:
			if al, ok := x.X.(*ssa.Alloc); ok {
				for _, r := range *al.Referrers() {
					if st, ok := r.(*ssa.Store); ok && st.Addr == al && foreign(st.Val, depth+1) {
						return true
					}
				}
				return false
			}
			return true // a load from the heap
		case *ssa.Phi:
			for _, e := range x.Edges {
				if foreign(e, depth+1) {
					return true
				}
			}
			return false
		case *ssa.Slice:
			return foreign(x.X, depth+1)
		case *ssa.ChangeType:
			return foreign(x.X, depth+1)
		}
		return false // make, literals, conversions from string, parameters
	}
	for _, fn := range fs {
		if fn.Name() == "init" || strings.HasPrefix(fn.Name(), "init#") {
			continue
		}
		for _, b := range fn.Blocks {
			for _, ins := range b.Instrs {
				c, ok := ins.(*ssa.Call)
				if !ok {
					continue
				}
				bi, ok := c.Call.Value.(*ssa.Builtin)
				if !ok || bi.Name() != "append" || len(c.Call.Args) == 0 || !isByteSlice(c.Call.Args[0].Type()) {
					continue
				}
				fa.obligation++
				fa.perFunc[funcKey(fn)]++
				if foreign(c.Call.Args[0], 0) {
					pos := fa.p.Prog.Fset.Position(ins.Pos())
					fa.violations = append(fa.violations, fmt.Sprintf("%s: appends in place to a byte buffer it does not own (%s)  [%s:%d]", funcKey(fn), c.Call.Args[0].Name(), filepath.Base(pos.Filename), pos.Line))
				}
			}
		}
	}
	// obligations
	for _, fn := range fs {
		key := funcKey(fn)
		base := fn
		for base.Parent() != nil {
			base = base.Parent()
		}
		if fa.exempt[funcKey(base)] || fn.Name() == "init" || strings.HasPrefix(fn.Name(), "init#") {
			continue
		}
		sh := fa.sharedIn(fn)
		for _, b := range fn.Blocks {
			for _, ins := range b.Instrs {
				for _, tgt := range fa.writeTargets(ins) {
					fa.obligation++
					fa.perFunc[key]++
					pos := fa.p.Prog.Fset.Position(ins.Pos())
					what := fmt.Sprintf("%s: %s  [%s:%d]", key, ins.String(), filepath.Base(pos.Filename), pos.Line)
					if fa.isSharedTarget(sh, tgt) {
						fa.violations = append(fa.violations, what)
					} else if len(fa.samples) < 6 && fa.obligation%37 == 1 {
						fa.samples = append(fa.samples, what+"  — target is not a package-level variable nor reachable from one")
					}
				}
			}
		}
	}
}

func isGlobal(v ssa.Value) bool { _, ok := v.(*ssa.Global); return ok }

// paramDerived maps values that are (derived from) a parameter to the parameter's index.
func (fa *frameAnalysis) paramDerived(fn *ssa.Function) map[ssa.Value]int {
	pd := map[ssa.Value]int{}
	for k, p := range fn.Params {
		if isRefType(p.Type()) {
			pd[p] = k
		}
	}
	// naive form: parameters are copied into cells first; follow loads of those cells
	cellOf := map[*ssa.Alloc]int{}
	for _, b := range fn.Blocks {
		for _, ins := range b.Instrs {
			if st, ok := ins.(*ssa.Store); ok {
				if a, ok := st.Addr.(*ssa.Alloc); ok {
					if k, ok := pd[st.Val]; ok {
						cellOf[a] = k
					}
				}
			}
		}
	}
	for changed := true; changed; {
		changed = false
		for _, b := range fn.Blocks {
			for _, ins := range b.Instrs {
				v, ok := ins.(ssa.Value)
				if !ok {
					continue
				}
				if _, done := pd[v]; done {
					continue
				}
				var src ssa.Value
				switch i := ins.(type) {
				case *ssa.UnOp:
					if i.Op.String() == "*" {
						if a, ok := i.X.(*ssa.Alloc); ok {
							if k, ok := cellOf[a]; ok && isRefType(i.Type()) {
								pd[v] = k
								changed = true
							}
							continue
						}
						if isRefType(i.Type()) {
							src = i.X
						}
					}
				case *ssa.FieldAddr:
					src = i.X
				case *ssa.IndexAddr:
					src = i.X
				case *ssa.Slice:
					src = i.X
				case *ssa.ChangeType:
					src = i.X
				case *ssa.TypeAssert:
					src = i.X
				case *ssa.Lookup:
					if isRefType(i.Type()) {
						src = i.X
					}
				}
				if src != nil {
					if k, ok := pd[src]; ok {
						pd[v] = k
						changed = true
					}
				}
			}
		}
	}
	return pd
}

// writeTargets: the addresses / references an instruction may write through.
func (fa *frameAnalysis) writeTargets(ins ssa.Instruction) []ssa.Value {
	switch i := ins.(type) {
	case *ssa.Store:
		if a, ok := i.Addr.(*ssa.Alloc); ok && !a.Heap {
			return nil // a local variable
		}
		return []ssa.Value{i.Addr}
	case *ssa.MapUpdate:
		return []ssa.Value{i.Map}
	case *ssa.Call:
		com := i.Call
		if bi, ok := com.Value.(*ssa.Builtin); ok {
			switch bi.Name() {
			case "append", "copy", "delete", "clear":
				return []ssa.Value{com.Args[0]}
			}
			return nil
		}
		var out []ssa.Value
		if c := com.StaticCallee(); c != nil {
			for k := range fa.writesPar[c] {
				if k < len(com.Args) {
					out = append(out, com.Args[k])
				}
			}
			full := c.String()
			if c.Pkg != fa.p.SPkg && !externalIsPure(full) {
				for _, a := range com.Args {
					if mi, ok := a.(*ssa.MakeInterface); ok {
						a = mi.X
					}
					if isRefType(a.Type()) && !isString(a.Type()) {
						out = append(out, a)
					}
				}
			}
		}
		return out
	}
	return nil
}

func cmdCheckC19(tier string, seed int) int {
	t0 := time.Now()
	prop := "C19"
	p, err := loadProgram(repoDir())
	if err != nil {
		fmt.Printf("ENGINE-ERROR property=%s cannot load the package: %v\n", prop, err)
		rp := writeReplay(prop, "engine-error", map[string]any{"obligation": "engine-error", "error": err.Error()})
		fmt.Printf("VIOLATION property=%s replay=%s no-failing-input-found\n", prop, rp)
		return 1
	}
	fa := &frameAnalysis{p: p, exempt: map[string]bool{"AddScalarFunction": true, "AddAggrFunction": true, "init": true}}
	fa.run()
	for _, v := range fa.violations {
		rp := writeReplay(prop, "frame:"+v, map[string]any{"obligation": "frame(" + v + ")", "note": "this instruction may write memory that is a package-level variable or reachable from one (outside init / AddScalarFunction / AddAggrFunction); a frame violation has no schedule to replay"})
		fmt.Printf("VIOLATION property=%s replay=%s no-failing-input-found\n", prop, rp)
		fmt.Printf("  shared memory written: %s\n", v)
	}
	var globals []string
	for _, m := range p.SPkg.Members {
		if g, ok := m.(*ssa.Global); ok {
			globals = append(globals, g.Name())
		}
	}
	sort.Strings(globals)
	var retSh []string
	for f, b := range fa.retShared {
		if b {
			retSh = append(retSh, funcKey(f))
		}
	}
	sort.Strings(retSh)
	nf := len(fa.perFunc)
	nall := len(fa.funcs())
	ev := map[string]any{
		"property_id": prop, "tier": tier, "seed": seed, "level": "other", "wall_s": time.Since(t0).Seconds(), "violations": len(fa.violations),
		"coverage": map[string]any{
			"explanation": "Frame (ownership) theorem over the go/ssa form of every function of the package: each instruction that can write memory (Store, MapUpdate, append/copy/delete/clear, calls with a write summary, non-pure external calls) is an obligation, discharged when its target is neither a package-level variable nor reachable from one (taint fixpoint with interprocedural summaries). A second rule covers escape: no function returns an object reachable from a package-level variable when the package's own exported API writes objects of that type through a receiver or parameter (a client calling BindQuery / SetPadding on such an object would write shared memory) - provenance is followed through local cells, calls and the initialiser. With no writes to shared library state outside the registration API, statements that own their plan, AST and ExecuteCtx share only immutable memory; under the Go memory model that excludes data races for every schedule, and determinism of each statement is what the other properties' postconditions state. A third rule covers byte buffers: append to a []byte writes behind its length, so the destination must be a buffer the function owns, not one obtained from an evaluation, a type assertion or storage. No schedule is explored: this family cannot do that.",
			"obligations": fa.obligation, "discharged": fa.obligation - len(fa.violations),
			"checker_cmd": "/verif/bin/kvc check C19 --tier " + tier,
			"trusted_base": []string{"T-SSA: go/ssa build of the package", "the taint analysis of /verif/engine/cmd/kvc/frame.go (syntactic back end, no solver)"},
			"functions_analysed": nall, "functions_with_write_sites": nf, "package_level_variables": globals, "functions_returning_shared_memory": retSh,
			"exempt_registration_api": []string{"init", "AddScalarFunction", "AddAggrFunction"},
			"samples": fa.samples, "evaluations": fa.obligation, "distinct_nontrivial": fa.obligation,
		},
		"assumptions": []string{
			"the Storage implementation is thread-safe",
			"callers do not register functions (AddScalarFunction / AddAggrFunction) or change the package switches (PlanBatchSize, EnableFieldCache, DefaultErrorPadding) while statements run",
			"instances from regexp, encoding/json, strconv and perks/quantile are not shared between statements (they are created per call / per plan)",
			"a correctly lock-protected plain global introduced later would be reported although the property still held (stated limit of the method)",
			"byte buffers: every append to a []byte must target a buffer the function owns (make, literal, conversion, own parameter, fresh callee result); ownership is syntactic - a buffer that is leaked and appended to afterwards, and writes through index expressions into slices obtained from storage, are covered only by the generic shared-target rule",
		},
	}
	os.MkdirAll(filepath.Join(verifDir(), "evidence"), 0o755)
	b, _ := json.MarshalIndent(ev, "", " ")
	os.WriteFile(filepath.Join(verifDir(), "evidence", prop+".json"), b, 0o644)
	fmt.Printf("C19: %d functions (%d with write sites), %d write sites checked, %d write shared library state, %.1fs\n", nall, nf, fa.obligation, len(fa.violations), time.Since(t0).Seconds())
	if len(fa.violations) > 0 {
		return 1
	}
	return 0
}
