package main

import (
	"go/constant"
	"go/types"

	"golang.org/x/tools/go/ssa"
)

// Effectively constant package-level maps.
//
// A package-level `var M = map[K]V{c1: v1, ...}` whose keys and values are constants, that is
// assigned only by the package initialiser and whose every other use in the package is a read
// (lookup, range, len), has the same contents in every reachable state. The engine then evaluates
// `M[k]` as a finite case split over the literal's entries instead of reading an unknown heap.
// Both conditions are re-checked syntactically on every run over the whole package (SSA of all
// functions, anonymous ones included); a map that fails either is treated as an ordinary unknown
// global map.

type constMapEntry struct {
	k, v *ssa.Const
}

type constMap struct {
	g       *ssa.Global
	entries []constMapEntry
}

// constMaps is computed once (functions are verified concurrently: a reader that saw the map while
// it was being filled treated `OperatorToString[op]` as an arbitrary lookup, and the obligations
// of checkWithMath failed now and then - the alarm of check request 14).
func (p *Program) constMaps() map[*ssa.Global]*constMap {
	p.cmapsOnce.Do(func() { p.cmaps = p.buildConstMaps() })
	return p.cmaps
}

func (p *Program) buildConstMaps() map[*ssa.Global]*constMap {
	cmaps := map[*ssa.Global]*constMap{}
	init := p.SPkg.Func("init")
	if init == nil {
		return cmaps
	}
	made := map[*ssa.MakeMap]*constMap{}
	bad := map[*ssa.MakeMap]bool{}
	for _, b := range init.Blocks {
		for _, ins := range b.Instrs {
			switch i := ins.(type) {
			case *ssa.MapUpdate:
				mm, ok := i.Map.(*ssa.MakeMap)
				if !ok {
					continue
				}
				k, ok1 := i.Key.(*ssa.Const)
				v, ok2 := i.Value.(*ssa.Const)
				if !ok1 || !ok2 || k.Value == nil || v.Value == nil {
					bad[mm] = true
					continue
				}
				if made[mm] == nil {
					made[mm] = &constMap{}
				}
				made[mm].entries = append(made[mm].entries, constMapEntry{k, v})
			case *ssa.Store:
				gl, ok := i.Addr.(*ssa.Global)
				mm, ok2 := i.Val.(*ssa.MakeMap)
				if ok && ok2 {
					if made[mm] == nil {
						made[mm] = &constMap{}
					}
					made[mm].g = gl
				}
			}
		}
	}
	cand := map[*ssa.Global]*constMap{}
	for mm, cm := range made {
		if cm.g == nil || bad[mm] {
			continue
		}
		// the MakeMap value itself must be used only by its updates and the one store
		okUse := true
		for _, r := range *mm.Referrers() {
			switch r.(type) {
			case *ssa.MapUpdate, *ssa.Store, *ssa.DebugRef:
			default:
				okUse = false
			}
		}
		if okUse {
			cand[cm.g] = cm
		}
	}
	// every use of the global anywhere in the package must be a read
	var scan func(fn *ssa.Function)
	seenStore := map[*ssa.Global]int{}
	scan = func(fn *ssa.Function) {
		for _, b := range fn.Blocks {
			for _, ins := range b.Instrs {
				for _, op := range ins.Operands(nil) {
					gl, ok := (*op).(*ssa.Global)
					if !ok || cand[gl] == nil {
						continue
					}
					switch i := ins.(type) {
					case *ssa.Store:
						if i.Addr == gl && fn == init {
							seenStore[gl]++
							continue
						}
						delete(cand, gl)
					case *ssa.UnOp:
						for _, r := range *i.Referrers() {
							switch u := r.(type) {
							case *ssa.Lookup:
								if u.X != i {
									delete(cand, gl)
								}
							case *ssa.Range, *ssa.DebugRef:
							case *ssa.Call:
								if bi, ok := u.Call.Value.(*ssa.Builtin); !ok || bi.Name() != "len" {
									delete(cand, gl)
								}
							default:
								delete(cand, gl)
							}
						}
					case *ssa.DebugRef:
					default:
						delete(cand, gl)
					}
				}
			}
		}
		for _, af := range fn.AnonFuncs {
			scan(af)
		}
	}
	for _, m := range p.SPkg.Members {
		if fn, ok := m.(*ssa.Function); ok {
			scan(fn)
		}
	}
	for _, fn := range p.Funcs {
		scan(fn)
	}
	for gl, cm := range cand {
		if seenStore[gl] >= 1 {
			cmaps[gl] = cm
		}
	}
	return cmaps
}

// constMapOf recognises `*G` for an effectively constant global map G.
func (p *Program) constMapOf(v ssa.Value) *constMap {
	u, ok := v.(*ssa.UnOp)
	if !ok {
		return nil
	}
	gl, ok := u.X.(*ssa.Global)
	if !ok {
		return nil
	}
	return p.constMaps()[gl]
}

var _ = constant.MakeBool
var _ types.Type
