package main

import (
	"fmt"
	"go/token"
	"go/types"
	"strings"

	"golang.org/x/tools/go/ssa"
)

func (f *frame) setResults(i *ssa.Call, rs []T) {
	switch len(rs) {
	case 0:
	case 1:
		f.vals[i] = rs[0]
	default:
		f.tuples[i] = rs
	}
}

func (f *frame) doCall(i *ssa.Call, st *State, pc string) string {
	g := f.g
	com := i.Call
	if bi, ok := com.Value.(*ssa.Builtin); ok {
		f.builtin(i, bi, st, pc)
		return pc
	}
	var args []T
	for _, a := range com.Args {
		args = append(args, f.val(a))
	}
	// closures handed to the callee: couple captured locals with ghost variables
	var coupled []*ssa.MakeClosure
	for _, a := range com.Args {
		if ct, ok := a.(*ssa.ChangeType); ok { // func literal converted to a named function type
			a = ct.X
		}
		if mc, ok := a.(*ssa.MakeClosure); ok && f.top && g.spec != nil && g.spec.Closures != nil {
			if cs := g.spec.Closures[f.closOrd[mc]]; cs != nil {
				f.closureOut(mc, cs, st, pc)
				coupled = append(coupled, mc)
			}
		}
	}
	if len(coupled) > 0 {
		npc := f.doCallInner(i, st, pc, args)
		for _, mc := range coupled {
			f.closureBack(mc, g.spec.Closures[f.closOrd[mc]], st)
		}
		return npc
	}
	return f.doCallInner(i, st, pc, args)
}

// coupledCell finds the boxed cell of a captured local by source name.
func (f *frame) coupledCell(mc *ssa.MakeClosure, name string) (heap, ref string, ty types.Type) {
	g := f.g
	fn := mc.Fn.(*ssa.Function)
	for k, fv := range fn.FreeVars {
		if fv.Name() == name {
			b := mc.Bindings[k]
			et := b.Type().Underlying().(*types.Pointer).Elem()
			return g.boxHeapOf(et), f.val(b).S, et
		}
	}
	fail("contract %s: closure does not capture %q", funcKey(f.fn), name)
	return
}

// closureOut: before the call the ghost variable takes the captured local's value; the closure
// body is checked (once) against the func-type contract it is declared to implement.
func (f *frame) closureOut(mc *ssa.MakeClosure, cs *ClosureSpec, st *State, pc string) {
	g := f.g
	ft := g.Specs.Funcs[cs.Impl]
	if ft == nil || ft.Kind != "functype" {
		fail("contract %s: closure implements unknown function type %s", funcKey(f.fn), cs.Impl)
	}
	ghostHeap := func(n string) string {
		gt, ok := g.Specs.GhostVar[n]
		if !ok {
			fail("contract %s: couple names unknown ghost variable %s", funcKey(f.fn), n)
		}
		_, so := g.resolveType(gt)
		g.declHeap("ghost."+n, so)
		return "ghost." + n
	}
	for _, c := range cs.Couple {
		h, ref, _ := f.coupledCell(mc, c[0])
		g.writeHeap(st, ghostHeap(c[1]), "", g.readHeap(st, h, ref))
	}
	if f.closChecked[mc] {
		return
	}
	f.closChecked[mc] = true
	// check the body: arbitrary coupled state, arbitrary arguments
	fn := mc.Fn.(*ssa.Function)
	s0 := st.clone()
	for _, c := range cs.Couple {
		h, ref, et := f.coupledCell(mc, c[0])
		v := g.s.decl("cl."+c[0], g.sortOf(et))
		g.writeHeap(s0, h, ref, v.S)
		g.writeHeap(s0, ghostHeap(c[1]), "", v.S)
	}
	entry := s0.clone()
	sub := g.newFrame(fn, fmt.Sprintf("%sclosure%d.", f.prefix, f.closOrd[mc]), false)
	for k, fv := range fn.FreeVars {
		b := mc.Bindings[k]
		if a, ok := f.addrs[b]; ok {
			sub.addrs[fv] = a
		} else {
			sub.vals[fv] = f.val(b)
		}
	}
	var cargs []T
	vars := map[string]CV{}
	if len(ft.Params) != len(fn.Params)+1 {
		fail("contract %s: function type %s declares %d parameters, the closure has %d", funcKey(f.fn), cs.Impl, len(ft.Params)-1, len(fn.Params))
	}
	vars[ft.Params[0].Name] = CV{f.val(mc), mc.Type()}
	for k, p := range fn.Params {
		v := g.s.decl("cl."+p.Name(), g.sortOf(p.Type()))
		g.s.assumeUnder(pc, g.typeInv(s0, v, p.Type()))
		cargs = append(cargs, v)
		vars[ft.Params[k+1].Name] = CV{v, p.Type()}
	}
	henv := &Env{g: g, st: s0, old: s0, vars: vars, pc: pc, hyp: true}
	for _, c := range ft.Requires {
		g.s.assumeUnder(pc, henv.tr(c.E, true).S)
	}
	sub.run(cargs, s0, pc)
	names := g.resultNames(ft, fn.Signature.Results().Len())
	for n, r := range sub.rets {
		for _, c := range cs.Couple { // the ghost variable is the captured local
			h, ref, _ := f.coupledCell(mc, c[0])
			g.writeHeap(r.st, ghostHeap(c[1]), "", g.readHeap(r.st, h, ref))
		}
		rv := map[string]CV{}
		for k, v := range vars {
			rv[k] = v
		}
		for k, nm := range names {
			rv[nm] = CV{r.vals[k], fn.Signature.Results().At(k).Type()}
		}
		env := &Env{g: g, st: r.st, old: entry, vars: rv, pc: r.pc, hyp: false}
		for k, c := range ft.Ensures {
			goal := env.tr(c.E, true)
			f.oblig("ensures", fmt.Sprintf("%s#closure%d.refines(%s).%s@ret%d", funcKey(f.fn), f.closOrd[mc], cs.Impl, clauseLabel(c, k), n), r.pc, goal.S,
				"closure implements "+cs.Impl+": ensures "+c.Text, r.pos, c.Props)
		}
	}
}

// closureBack: after the call the captured local holds what the ghost variable says.
func (f *frame) closureBack(mc *ssa.MakeClosure, cs *ClosureSpec, st *State) {
	g := f.g
	for _, c := range cs.Couple {
		h, ref, _ := f.coupledCell(mc, c[0])
		g.writeHeap(st, h, ref, g.readHeap(st, "ghost."+c[1], ""))
	}
}

func (f *frame) doCallInner(i *ssa.Call, st *State, pc string, args []T) string {
	g := f.g
	com := i.Call
	if com.IsInvoke() {
		recv := f.val(com.Value)
		f.panicOb("nil", pc, not(eq(recv.S, "0")), i.Pos(), "method call on nil interface ("+com.Method.Name()+")")
		it := com.Value.Type()
		key := ifaceName(it) + "." + com.Method.Name()
		if fs := g.Specs.Funcs[key]; fs != nil && fs.Kind == "iface" {
			sig := com.Method.Type().(*types.Signature)
			cvs := []CV{{recv, it}}
			for k, a := range args {
				cvs = append(cvs, CV{a, sig.Params().At(k).Type()})
			}
			rs := f.applyContract(fs, cvs, sig.Results(), st, pc, i.Pos(), key)
			f.setResults(i, rs)
			return pc
		}
		f.havocCall(i, st, pc, "interface method "+key+" without contract", com.Method.Type().(*types.Signature).Results(), false)
		return pc
	}
	callee := com.StaticCallee()
	if callee == nil {
		// call through a function value: func-type contract by the named type
		if nt, ok := com.Value.Type().(*types.Named); ok {
			if fs := g.Specs.Funcs[nt.Obj().Name()]; fs != nil && fs.Kind == "functype" {
				sig := nt.Underlying().(*types.Signature)
				cvs := []CV{{f.val(com.Value), nt}}
				for k, a := range args {
					cvs = append(cvs, CV{a, sig.Params().At(k).Type()})
				}
				f.panicOb("nil", pc, not(eq(f.val(com.Value).S, "0")), i.Pos(), "call of nil function value")
				rs := f.applyContract(fs, cvs, sig.Results(), st, pc, i.Pos(), nt.Obj().Name())
				f.setResults(i, rs)
				return pc
			}
		}
		sig := com.Value.Type().Underlying().(*types.Signature)
		f.havocCall(i, st, pc, "call through function value of type "+typeName(com.Value.Type()), sig.Results(), true)
		return pc
	}
	// closure defined in this function: execute its body in place
	if mc, ok := com.Value.(*ssa.MakeClosure); ok {
		rs := f.inlineClosure(mc, args, st, pc, i)
		f.setResults(i, rs)
		return pc
	}
	full := callee.String()
	if callee.Pkg == nil || callee.Pkg != g.P.SPkg {
		if rs, npc, ok := f.stdlib(i, full, args, st, pc); ok {
			f.setResults(i, rs)
			return npc
		}
		f.havocCall(i, st, pc, "external function "+full+" without model", callee.Signature.Results(), false)
		return pc
	}
	key := funcKey(callee)
	fs := g.Specs.Funcs[key]
	switch {
	case fs != nil && (fs.Pure || fs.Inline):
		rs, npc := f.inlineCall(callee, args, st, pc, i, fs.Pure)
		f.setResults(i, rs)
		return npc
	case fs != nil:
		var cvs []CV
		for k, a := range args {
			cvs = append(cvs, CV{a, callee.Params[k].Type()})
		}
		rs := f.applyContract(fs, cvs, callee.Signature.Results(), st, pc, i.Pos(), key)
		f.setResults(i, rs)
		return pc
	default:
		if g.canAutoInline(callee) {
			rs, npc := f.inlineCall(callee, args, st, pc, i, false)
			f.setResults(i, rs)
			return npc
		}
		f.havocCall(i, st, pc, "package function "+key+" without contract", callee.Signature.Results(), true)
		return pc
	}
}

func ifaceName(t types.Type) string {
	if nt, ok := t.(*types.Named); ok {
		return nt.Obj().Name()
	}
	return typeName(t)
}

// canAutoInline: small loop-free helpers without a contract are executed in place.
func (g *Gen) canAutoInline(fn *ssa.Function) bool {
	if len(fn.Blocks) == 0 || g.depth >= 3 {
		return false
	}
	if len(findLoops(fn)) > 0 {
		return false
	}
	n := 0
	for _, b := range fn.Blocks {
		for _, ins := range b.Instrs {
			n++
			if c, ok := ins.(*ssa.Call); ok {
				if sc := c.Call.StaticCallee(); sc != nil && sc == fn {
					return false
				}
			}
			switch ins.(type) {
			case *ssa.Defer, *ssa.Go, *ssa.Select, *ssa.Send:
				return false
			}
		}
	}
	return n <= 120
}

// havocCall: unknown callee — results are unconstrained; if it may have side
// effects on package state, every heap seen so far is havocked.
func (f *frame) havocCall(i *ssa.Call, st *State, pc, why string, res *types.Tuple, effects bool) {
	g := f.g
	g.havocked = append(g.havocked, funcKey(f.fn)+": "+why)
	if effects {
		for _, n := range sortedKeys(g.heapSo) {
			if n == "alloc" || strings.HasPrefix(n, "iter.") {
				continue
			}
			hv := g.hv(st, n)
			g.setHeap(st, n, g.newHV(n, hv.sort, g.s.decl("hv."+n, hv.sort).S, hvHavoc))
		}
		f.bumpAlloc(st, pc)
	}
	var rs []T
	for k := 0; k < res.Len(); k++ {
		v := g.s.decl("r."+i.Name(), g.sortOf(res.At(k).Type()))
		g.s.assumeUnder(pc, g.typeInv(st, v, res.At(k).Type()))
		rs = append(rs, v)
	}
	f.setResults(i, rs)
}

func (f *frame) bumpAlloc(st *State, pc string) {
	g := f.g
	a0 := g.alloc(st)
	a1 := g.s.decl("alloc", "Int")
	g.s.assume("(>= " + a1.S + " " + a0 + ")")
	st.heap["alloc"] = g.newHV("alloc", "Int", a1.S, hvHavoc)
}

// ---------- builtins ----------

func (f *frame) builtin(i *ssa.Call, bi *ssa.Builtin, st *State, pc string) {
	g := f.g
	args := i.Call.Args
	switch bi.Name() {
	case "ssa:deferstack":
		f.vals[i] = T{"0", "Int"}
	case "len":
		a := f.val(args[0])
		switch a.So {
		case "Slc":
			f.vals[i] = T{"(len_ " + a.S + ")", "Int"}
		case "NB":
			f.vals[i] = T{"(blen (val " + a.S + "))", "Int"}
		case "Int": // map
			f.vals[i] = f.opaque(i, "len(map)")
			g.s.assume("(>= " + f.vals[i].S + " 0)")
		default:
			fail("%s: len of %s", f.fn.Name(), a.So)
		}
	case "cap":
		a := f.val(args[0])
		c := g.s.decl("cap", "Int")
		if a.So == "Slc" {
			g.s.assume("(>= " + c.S + " (len_ " + a.S + "))")
		}
		f.vals[i] = c
	case "append":
		f.doAppend(i, st, pc)
	case "copy":
		dst, src := f.val(args[0]), f.val(args[1])
		if dst.So != "Slc" || src.So != "Slc" {
			fail("%s: copy on byte strings is outside the subset", f.fn.Name())
		}
		et := args[0].Type().Underlying().(*types.Slice).Elem()
		h := g.elemHeapOf(et)
		n := g.s.def("n", T{ite("(< (len_ "+dst.S+") (len_ "+src.S+"))", "(len_ "+dst.S+")", "(len_ "+src.S+")"), "Int"})
		// the destination window [off, off+n) takes the source window; other cells keep their value
		na := g.s.decl("cp", "(Array Int "+g.sortOf(et)+")")
		da, sa := g.readHeap(st, h, "(ptr "+dst.S+")"), g.readHeap(st, h, "(ptr "+src.S+")")
		cpInst := func(ix string) string {
			j := "(+ (off " + dst.S + ") " + ix + ")"
			return and(imp(and("(<= 0 "+ix+")", "(< "+ix+" "+n.S+")"), eq("(select "+na.S+" "+j+")", "(select "+sa+" (+ (off "+src.S+") "+ix+"))")),
				imp(or("(< "+ix+" (off "+dst.S+"))", "(>= "+ix+" (+ (off "+dst.S+") "+n.S+"))"), eq("(select "+na.S+" "+ix+")", "(select "+da+" "+ix+")")))
		}
		g.s.declNamed("QK.Int.0", "Int")
		g.s.declNamed("QK.Int.1", "Int")
		for _, ix := range []string{"IK", "QK.Int.0", "QK.Int.1"} {
			g.s.assumeUnder(pc, cpInst(ix))
		}
		// the same two facts at every index term the code or a contract reads later
		cpf := &forallFact{sort: "Int", guard: pc, outer: "true", inst: cpInst}
		g.foralls = append(g.foralls, cpf)
		for _, t := range append([]string{}, g.instTerms["Int"]...) {
			g.instOne(cpf, t)
		}
		g.writeHeap(st, h, "(ptr "+dst.S+")", na.S)
		f.vals[i] = n
	case "delete":
		mt := args[0].Type().Underlying().(*types.Map)
		m := f.val(args[0])
		k := f.mapKey(f.val(args[1]))
		hh := g.mapHasHeap(mt)
		g.writeHeap(st, hh, m.S, "(store "+g.readHeap(st, hh, m.S)+" "+k+" false)")
	case "clear":
		switch t := args[0].Type().Underlying().(type) {
		case *types.Map:
			m := f.val(args[0])
			hh := g.mapHasHeap(t)
			g.writeHeap(st, hh, m.S, ite(eq(m.S, "0"), g.readHeap(st, hh, m.S), "((as const (Array "+g.mapKeySort(t)+" Bool)) false)"))
		default:
			fail("%s: clear of %s is outside the subset", f.fn.Name(), args[0].Type())
		}
	case "min", "max":
		a, b := f.val(args[0]), f.val(args[1])
		if a.So != "Int" || len(args) != 2 {
			fail("%s: %s on %s", f.fn.Name(), bi.Name(), a.So)
		}
		c := "(< " + a.S + " " + b.S + ")"
		if bi.Name() == "max" {
			c = "(> " + a.S + " " + b.S + ")"
		}
		f.vals[i] = g.s.def(i.Name(), T{ite(c, a.S, b.S), "Int"})
	case "print", "println":
	default:
		fail("%s: builtin %s is outside the subset", f.fn.Name(), bi.Name())
	}
}

// append(s, xs...): one term covers both outcomes (in place / reallocated).
func (f *frame) doAppend(i *ssa.Call, st *State, pc string) {
	g := f.g
	args := i.Call.Args
	old, add := f.val(args[0]), f.val(args[1])
	if old.So == "NB" {
		// append([]byte, ...): value semantics
		if add.So == "NB" {
			f.vals[i] = g.s.def(i.Name(), T{"(mk false (cat (val " + old.S + ") (val " + add.S + ")))", "NB"})
			return
		}
		fail("%s: append to []byte of non-bytes", f.fn.Name())
	}
	et := args[0].Type().Underlying().(*types.Slice).Elem()
	h := g.elemHeapOf(et)
	es := g.sortOf(et)
	inpl := g.s.decl("inplace", "Bool")
	np := g.fresh(st)
	tgt := g.s.def("ap.ptr", T{ite(and(inpl.S, not("(snil "+old.S+")")), "(ptr "+old.S+")", np), "Int"})
	oldArr := g.readHeap(st, h, "(ptr "+old.S+")")
	addArr := g.readHeap(st, h, "(ptr "+add.S+")")
	base := "(+ (off " + old.S + ") (len_ " + old.S + "))"
	// number of appended elements: literal for the varargs arrays go/ssa builds
	n := -1
	if sl, ok := args[1].(*ssa.Slice); ok {
		if pt, ok := sl.X.Type().Underlying().(*types.Pointer); ok {
			if arr, ok := pt.Elem().Underlying().(*types.Array); ok && sl.Low == nil && sl.High == nil {
				n = int(arr.Len())
			}
		}
	}
	if c, ok := args[1].(*ssa.Const); ok && c.Value == nil {
		n = 0
	}
	var newArr string
	if n >= 0 && n <= 4 {
		newArr = oldArr
		for k := 0; k < n; k++ {
			newArr = fmt.Sprintf("(store %s (+ %s %d) (select %s (+ (off %s) %d)))", newArr, base, k, addArr, add.S, k)
		}
	} else {
		// general case: the new array agrees with the old one on the old window and with xs beyond it
		na := g.s.decl("ap.arr", "(Array Int "+es+")")
		g.s.declNamed("QK.Int.0", "Int")
		for _, ix := range []string{"IK", "QK.Int.0"} {
			g.s.assumeUnder(pc, imp(and("(<= (off "+old.S+") "+ix+")", "(< "+ix+" "+base+")"), eq("(select "+na.S+" "+ix+")", "(select "+oldArr+" "+ix+")")))
			g.s.assumeUnder(pc, imp(and("(<= "+base+" "+ix+")", "(< "+ix+" (+ "+base+" (len_ "+add.S+")))"),
				eq("(select "+na.S+" "+ix+")", "(select "+addArr+" (+ (off "+add.S+") (- "+ix+" "+base+")))")))
		}
		newArr = na.S
	}
	g.writeHeap(st, h, tgt.S, newArr)
	f.vals[i] = g.s.def(i.Name(), T{"(slc " + tgt.S + " (off " + old.S + ") (+ (len_ " + old.S + ") (len_ " + add.S + ")) false)", "Slc"})
	if f.top && g.spec != nil && n == 1 {
		for k, as := range g.spec.OnAppend {
			ty, _ := g.resolveType(as.Type)
			if ty == nil || !types.Identical(ty, et) {
				continue
			}
			elem := g.s.def("ap.elem", T{fmt.Sprintf("(select %s (+ (off %s) 0))", addArr, add.S), es})
			vars := map[string]CV{}
			for kk, v := range g.paramVals {
				vars[kk] = v
			}
			for kk, v := range g.ghostVals {
				vars[kk] = v
			}
			vars["elem"] = CV{elem, et}
			env := &Env{g: g, st: st, old: g.entry, vars: vars, cells: f.cells, pc: pc, hyp: false, frame: f}
			if as.Use != nil {
				henv := *env
				henv.hyp = true
				g.useAxiom(&henv, as.Use)
				continue
			}
			goal := env.tr(as.Clause.E, true)
			env.want(goal, "Bool", as.Clause.E)
			ord := f.npanic["onappend"]
			f.npanic["onappend"] = ord + 1
			lbl := as.Clause.Label
			if lbl == "" {
				lbl = fmt.Sprint(k)
			}
			f.oblig("assert", fmt.Sprintf("%s#onappend.%s.%d", funcKey(f.fn), lbl, ord), pc, goal.S, "appended value: "+as.Clause.Text, i.Pos(), as.Clause.Props)
			f.passed = append(f.passed, goal.S)
		}
	}
}

// ---------- inlining ----------

func (f *frame) inlineCall(callee *ssa.Function, args []T, st *State, pc string, at *ssa.Call, pure bool) ([]T, string) {
	g := f.g
	g.depth++
	defer func() { g.depth-- }()
	if g.depth > 8 {
		fail("%s: inlining depth exceeded at %s", f.fn.Name(), callee.Name())
	}
	sub := g.newFrame(callee, fmt.Sprintf("%s%s@%s.", f.prefix, callee.Name(), at.Name()), false)
	for k, v := range f.npanic { // keep panic ordinals unique per enclosing function
		_ = k
		_ = v
	}
	sub.run(args, st, pc)
	return f.joinReturns(sub, callee, st, pc)
}

// joinReturns merges the return sites of an inlined activation into the caller's state.
func (f *frame) joinReturns(sub *frame, callee *ssa.Function, st *State, pc string) ([]T, string) {
	g := f.g
	if len(sub.rets) == 0 {
		// callee never returns (panics on every path): the continuation is unreachable
		return f.unreachableResults(callee.Signature.Results()), "false"
	}
	var es []edge
	for _, r := range sub.rets {
		es = append(es, edge{r.pc, r.st})
	}
	npc, nst := g.mergeStates(es)
	// keep the caller's cells (the callee's own cells die with its activation)
	for c := range nst.cells {
		if _, mine := st.cells[c]; !mine {
			delete(nst.cells, c)
		}
	}
	for c, v := range st.cells {
		if _, ok := nst.cells[c]; !ok {
			nst.cells[c] = v
		}
	}
	*st = *nst
	nres := callee.Signature.Results().Len()
	out := make([]T, nres)
	for k := 0; k < nres; k++ {
		t := sub.rets[len(sub.rets)-1].vals[k].S
		for r := len(sub.rets) - 2; r >= 0; r-- {
			t = ite(sub.rets[r].pc, sub.rets[r].vals[k].S, t)
		}
		out[k] = g.s.def("r."+callee.Name(), T{t, g.sortOf(callee.Signature.Results().At(k).Type())})
	}
	return out, npc
}

func (f *frame) unreachableResults(res *types.Tuple) []T {
	var out []T
	for k := 0; k < res.Len(); k++ {
		out = append(out, f.g.zero(res.At(k).Type()))
	}
	return out
}

func (f *frame) inlineClosure(mc *ssa.MakeClosure, args []T, st *State, pc string, at *ssa.Call) []T {
	return f.inlineClosureAt(mc, args, st, pc, at.Name())
}

func (f *frame) inlineClosureAt(mc *ssa.MakeClosure, args []T, st *State, pc string, at string) []T {
	g := f.g
	fn := mc.Fn.(*ssa.Function)
	sub := g.newFrame(fn, fmt.Sprintf("%s%s@%s.", f.prefix, fn.Name(), at), false)
	for k, fv := range fn.FreeVars {
		b := mc.Bindings[k]
		if a, ok := f.addrs[b]; ok {
			sub.addrs[fv] = a
		} else {
			sub.vals[fv] = f.val(b)
		}
	}
	sub.run(args, st, pc)
	rs, _ := f.joinReturns(sub, fn, st, pc)
	return rs
}

// inlinePure evaluates a pure Go function inside a contract expression.
func (g *Gen) inlinePure(fn *ssa.Function, args []T, st *State, pc string) []T {
	g.depth++
	defer func() { g.depth-- }()
	sub := g.newFrame(fn, "spec."+fn.Name()+".", false)
	nob := len(g.obs)
	scratch := st.clone()
	sub.run(args, scratch, "true")
	g.obs = g.obs[:nob] // a contract-level use generates no obligations
	if len(sub.rets) == 0 {
		fail("pure function %s has no return", fn.Name())
	}
	nres := fn.Signature.Results().Len()
	out := make([]T, nres)
	for k := 0; k < nres; k++ {
		t := sub.rets[len(sub.rets)-1].vals[k].S
		for r := len(sub.rets) - 2; r >= 0; r-- {
			t = ite(sub.rets[r].pc, sub.rets[r].vals[k].S, t)
		}
		out[k] = g.s.def("p."+fn.Name(), T{t, g.sortOf(fn.Signature.Results().At(k).Type())})
	}
	return out
}

// ---------- contracts at call sites ----------

// bindParams maps the contract's parameter names to the actual values.
func (g *Gen) bindParams(fs *FuncSpec, actuals []CV) map[string]CV {
	if len(fs.Params) != len(actuals) {
		fail("contract %s declares %d parameters, the code passes %d", fs.Key, len(fs.Params), len(actuals))
	}
	vars := map[string]CV{}
	for k, p := range fs.Params {
		vars[p.Name] = actuals[k]
	}
	return vars
}

func (g *Gen) resultNames(fs *FuncSpec, n int) []string {
	if len(fs.Results) == n {
		var ns []string
		for _, r := range fs.Results {
			ns = append(ns, r.Name)
		}
		return ns
	}
	if len(fs.Results) != 0 {
		fail("contract %s declares %d results, the code has %d", fs.Key, len(fs.Results), n)
	}
	if n == 1 {
		return []string{"result"}
	}
	var ns []string
	for k := 0; k < n; k++ {
		ns = append(ns, fmt.Sprintf("result%d", k))
	}
	return ns
}

// effective clauses of a contract: its own plus those of the interface method it implements.
func (g *Gen) clauses(fs *FuncSpec) (req, ens []*Clause, asg []*CE, ghosts []GhostParam, rename map[string]string) {
	rename = map[string]string{}
	if fs.Impl != "" {
		is := g.Specs.Funcs[fs.Impl]
		if is == nil {
			fail("contract %s implements unknown %s", fs.Key, fs.Impl)
		}
		req = append(req, is.Requires...)
		ens = append(ens, is.Ensures...)
		asg = append(asg, is.Assigns...)
		ghosts = append(ghosts, is.Ghosts...)
		if len(is.Params) != len(fs.Params) {
			fail("contract %s: parameter count differs from %s", fs.Key, fs.Impl)
		}
		for k := range is.Params {
			rename[is.Params[k].Name] = fs.Params[k].Name
		}
		for k := range is.Results {
			if k < len(fs.Results) {
				rename[is.Results[k].Name] = fs.Results[k].Name
			}
		}
	}
	req = append(req, fs.Requires...)
	ens = append(ens, fs.Ensures...)
	asg = append(asg, fs.Assigns...)
	for _, gp := range fs.Ghosts {
		dup := false
		for _, h := range ghosts {
			dup = dup || h.Name == gp.Name
		}
		if !dup {
			ghosts = append(ghosts, gp)
		}
	}
	return
}

// withAliases adds, for an implementing method, the interface contract's names as aliases.
func withAliases(vars map[string]CV, rename map[string]string) {
	for ifn, own := range rename {
		if v, ok := vars[own]; ok {
			if _, clash := vars[ifn]; !clash {
				vars[ifn] = v
			}
		}
	}
}

type loc struct {
	heap string
	ref  string // "" for scalars (globals, ghost variables)
	all  bool   // whole heap
	skip bool   // the location is reached through a nil pointer: nothing is written
	idx  string // element-level location s[i]: the (absolute) position inside the backing array ref
}

// derefsNil: the location expression dereferences the literal nil (e.g. ctx.Hit with ctx == nil).
func (e *Env) derefsNil(x *CE) bool {
	switch x.Op {
	case "field":
		b := e.tr(x.Args[0], true)
		if b.S == "0" {
			return true
		}
		return e.derefsNil(x.Args[0])
	case "call":
		if x.Args[0].Op == "ident" && (x.Args[0].Name == "allof" || x.Args[0].Name == "allelems") {
			return false
		}
		for _, a := range x.Args[1:] {
			if a.Op != "type" && e.derefsNil(a) {
				return true
			}
		}
	case "index":
		return e.derefsNil(x.Args[0])
	}
	return false
}

// locOf evaluates an assigns-location.
func (e *Env) locOf(x *CE) loc {
	if e.derefsNil(x) {
		l := e.locOfInner(x)
		l.skip = true
		return l
	}
	return e.locOfInner(x)
}

func (e *Env) locOfInner(x *CE) loc {
	g := e.g
	switch x.Op {
	case "index":
		// s[i]: one element of the backing array of slice s
		b := e.tr(x.Args[0], true)
		i := e.tr(x.Args[1], true)
		if b.Ty == nil {
			fail("assigns %s: untyped base", x)
		}
		sl, ok := b.Ty.Underlying().(*types.Slice)
		if !ok || b.So != "Slc" {
			fail("assigns %s: base is not a slice", x)
		}
		return loc{heap: g.elemHeapOf(sl.Elem()), ref: "(ptr " + b.S + ")", idx: "(+ (off " + b.S + ") " + i.S + ")"}
	case "field":
		b := e.tr(x.Args[0], true)
		if b.Ty == nil {
			fail("assigns %s: untyped base", x)
		}
		pt, ok := b.Ty.Underlying().(*types.Pointer)
		if !ok {
			fail("assigns %s: base is not a pointer", x)
		}
		st := pt.Elem().Underlying().(*types.Struct)
		for i := 0; i < st.NumFields(); i++ {
			if st.Field(i).Name() == x.Name {
				h, _ := g.fieldHeapOf(pt.Elem(), i)
				return loc{heap: h, ref: b.S}
			}
		}
		fail("assigns %s: no such field", x)
	case "ident":
		if gt, ok := g.Specs.GhostVar[x.Name]; ok {
			_, so := g.resolveType(gt)
			g.declHeap("ghost."+x.Name, so)
			return loc{heap: "ghost." + x.Name}
		}
		if o := g.P.Pkg.Types.Scope().Lookup(x.Name); o != nil {
			if v, ok := o.(*types.Var); ok {
				g.declHeap("G."+x.Name, g.sortOf(v.Type()))
				return loc{heap: "G." + x.Name}
			}
		}
	case "call":
		name := x.Args[0].Name
		if gf, ok := g.Specs.GhostFld[name]; ok {
			o := e.tr(x.Args[1], true)
			g.declHeap("GH."+name, "(Array Int "+gf[1]+")")
			return loc{heap: "GH." + name, ref: o.S}
		}
		switch name {
		case "deref":
			a := e.tr(x.Args[1], true)
			pt, ok := a.Ty.Underlying().(*types.Pointer)
			if !ok {
				fail("assigns %s: not a pointer", x)
			}
			return loc{heap: g.boxHeapOf(pt.Elem()), ref: a.S}
		case "elems":
			s := e.tr(x.Args[1], true)
			sl, ok := s.Ty.Underlying().(*types.Slice)
			if !ok {
				fail("assigns %s: not a slice", x)
			}
			return loc{heap: g.elemHeapOf(sl.Elem()), ref: "(ptr " + s.S + ")"}
		case "mapof":
			m := e.tr(x.Args[1], true)
			mt := m.Ty.Underlying().(*types.Map)
			g.mapValHeap(mt)
			return loc{heap: g.mapHasHeap(mt), ref: m.S}
		case "allelems":
			// allelems(T): every element of every []T
			a := x.Args[1]
			if a.Op == "ident" || a.Op == "type" {
				ty, _ := g.resolveType(a.Name)
				if ty != nil {
					return loc{heap: g.elemHeapOf(ty), all: true}
				}
			}
		case "allof":
			// allof(GhostField) / allof(T.f): the whole heap
			a := x.Args[1]
			if a.Op == "ident" {
				if gf, ok := g.Specs.GhostFld[a.Name]; ok {
					g.declHeap("GH."+a.Name, "(Array Int "+gf[1]+")")
					return loc{heap: "GH." + a.Name, all: true}
				}
			}
			if a.Op == "field" && a.Args[0].Op == "ident" {
				ty, _ := g.resolveType(a.Args[0].Name)
				st := ty.Underlying().(*types.Struct)
				for i := 0; i < st.NumFields(); i++ {
					if st.Field(i).Name() == a.Name {
						h, _ := g.fieldHeapOf(ty, i)
						return loc{heap: h, all: true}
					}
				}
			}
		}
	}
	fail("unsupported assigns location %s", x)
	return loc{}
}

// applyContract: assert the precondition, havoc the frame, assume the postcondition.
func (f *frame) applyContract(fs *FuncSpec, actuals []CV, res *types.Tuple, st *State, pc string, pos token.Pos, what string) []T {
	g := f.g
	req, ens, asg, ghosts, rename := g.clauses(fs)
	vars := g.bindParams(fs, actuals)
	for _, a := range actuals {
		// objects handed to a callee are objects the quantified facts about references speak of
		if a.So == "Int" && a.Ty != nil && isRefType(a.Ty) && len(a.S) < 200 {
			g.addInstTerm("Ref", a.S)
		}
	}
	for _, gp := range ghosts {
		_, so := g.resolveType(gp.Sort)
		if v, ok := g.ghostVals[gp.Name]; ok && v.So == so {
			vars[gp.Name] = v
		} else if v, ok := g.paramVals[gp.Name]; ok && v.So == so {
			vars[gp.Name] = v
		} else {
			ty, _ := g.resolveType(gp.Sort)
			vars[gp.Name] = CV{g.s.decl("gh."+gp.Name, so), ty}
		}
	}
	withAliases(vars, rename)
	pre := st.clone()
	site := fmt.Sprintf("%s#pre(%s).%d", funcKey(f.fn), what, f.npanic["call:"+what])
	f.npanic["call:"+what]++
	envPre := &Env{g: g, st: st, old: st, vars: vars, pc: pc, hyp: false}
	for k, c := range req {
		if !g.wantClause(c) {
			// a precondition that belongs to another property: neither checked nor used here (the
			// callee's postconditions then rest on it as a listed assumption)
			g.trustedUse["precondition of "+fs.Key+" left to "+strings.Join(c.Props, ",")+": "+c.Text] = true
			continue
		}
		goal := envPre.tr(c.E, true)
		envPre.want(goal, "Bool", c.E)
		lbl := c.Label
		if lbl == "" {
			lbl = fmt.Sprint(k)
		}
		f.oblig("requires", site+"."+lbl, pc, goal.S, "requires "+c.Text+"   ["+fs.Key+"]", pos, c.Props)
		// once checked, the precondition may be used
		g.s.assumeUnder(pc, goal.S)
	}
	if fs.Trusted != "" {
		g.trustedUse[fs.Key] = true
	}
	if fs.Kind == "iface" || fs.Kind == "functype" {
		g.ifaceUse[fs.Key] = true
	}
	// frame: explicit locations are havocked, everything else (existing objects) is kept
	byHeap := map[string][]loc{}
	for _, a := range asg {
		l := envPre.locOf(a)
		if l.skip {
			continue
		}
		byHeap[l.heap] = append(byHeap[l.heap], l)
		if strings.HasPrefix(l.heap, "Mh.") {
			mv := "Mv." + strings.TrimPrefix(l.heap, "Mh.")
			byHeap[mv] = append(byHeap[mv], loc{heap: mv, ref: l.ref, all: l.all})
		}
	}
	for _, h := range sortedKeys(byHeap) {
		hv := g.hv(st, h)
		cur := hv.term
		for _, l := range byHeap[h] {
			switch {
			case l.all || l.ref == "":
				cur = g.s.decl("hv."+h, hv.sort).S
			case l.idx != "":
				// one element: an explicit store, so that every other element keeps its value
				inner := splitSort(splitSort(hv.sort)[2])
				cur = "(store " + cur + " " + l.ref + " (store (select " + cur + " " + l.ref + ") " + l.idx + " " + g.s.decl("hv."+h, inner[2]).S + "))"
			default:
				parts := splitSort(hv.sort)
				cur = "(store " + cur + " " + l.ref + " " + g.s.decl("hv."+h, parts[2]).S + ")"
			}
		}
		d := g.s.def(h, T{cur, hv.sort})
		g.setHeap(st, h, g.newHV(h, hv.sort, d.S, hvStore, hv))
	}
	f.bumpAlloc(st, pc)
	names := g.resultNames(fs, res.Len())
	var rs []T
	for k := 0; k < res.Len(); k++ {
		v := g.s.decl("r."+sanitize(fs.Key)+"."+names[k], g.sortOf(res.At(k).Type()))
		g.s.assumeUnder(pc, g.typeInv(st, v, res.At(k).Type()))
		vars[names[k]] = CV{v, res.At(k).Type()}
		rs = append(rs, v)
	}
	withAliases(vars, rename)
	envPost := &Env{g: g, st: st, old: pre, vars: vars, pc: pc, hyp: true}
	for _, c := range fs.Defines {
		// definitional: the result of this deterministic, heap-independent function is given a name
		h := envPost.tr(c.E, true)
		g.s.assumeUnder(pc, h.S)
		g.trustedUse["definition: "+fs.Key+" defines "+c.Text] = true
	}
	for _, c := range ens {
		if strings.Contains(c.Text, "local(") {
			continue // speaks about the callee's own locals: not part of what callers may assume
		}
		if strings.HasPrefix(c.Label, "_") {
			continue // an internal clause (label _name): proved for the callee, not handed to callers
		}
		h := envPost.tr(c.E, true)
		envPost.want(h, "Bool", c.E)
		g.s.assumeUnder(pc, h.S)
	}
	return rs
}
