package main

// Per-property metadata reported in the evidence files.

var propInfo = map[string]struct {
	level       string
	explanation string
	assumptions []string
}{
	"C02": {"proof",
		"Every function of filter_optimizer.go is under contract: covers(result, k) is implied by the documented meaning of the predicate (holds) for an arbitrary ghost key k, for AND/OR by the intersection/union of the operands' regions; obligations are generated from the go/ssa form of the working tree and discharged by SMT for all keys, literals and predicate trees (recursion through the contract of optimizeExpr).",
		[]string{
			"oracle: the sem_* axioms of contracts_verif_filter.go transcribe the README's meaning of key = / ^= / > >= < <= / in / between / & | ; any other atom is unconstrained (may hold anywhere)",
			"A-COMP-C02: that the plan built by Optimize() reads exactly covers(scan type) is the subject of the scan-plan contracts (C01/C18), composed on paper",
		}},
	"C08": {"proof",
		"The limit state machines (LimitPlan, FinalLimitPlan: Init, Next, Batch) are proved against their child's ghost output sequence: under the object invariant 0<=skips<=Start, 0<=current<=Count, child cursor = skips+current, every call returns exactly the next rows Start+current.. of the child's sequence, stops at Count or at the child's end, and re-establishes the invariant - for every offset, count, result size, batch size (PlanBatchSize symbolic >= 1) and every split of the child's output into batches (the child's Batch contract allows any m >= 0 rows).",
		[]string{
			"A-COMP-C08: that the concatenation of all returned batches is S[Start..Start+Count) follows from the per-call contract by induction over calls (the object invariant is the induction hypothesis and is machine-checked; the induction itself is a paper step)",
			"the child satisfies the Plan / FinalPlan interface contract of contracts_verif_plan.go (assumed for children that are not themselves under contract)",
			"the plan wiring is under contract: buildFinalPlan / buildFinalLimitPlan hand `limit s, n` to a FinalLimitPlan with Start = s, Count = n on top of the projection / order plan, or - for an aggregate without ORDER BY - to the AggregatePlan itself (Start = s, Limit = n; Limit = -1 without LIMIT), whose Next / Batch are proved against the same state machine; buildDeletePlan wires LimitPlan likewise",
			"not under contract for this property: parser.parseLimit (the numbers of the LimitStmt are taken as given)",
		}},
	"C11": {"proof",
		"DeletePlan.execute/Next/Batch are proved against the child's ghost output sequence (fixed at Init: snapshot cursors): the loop drains the child, every mutating storage call it issues is a BatchDelete whose keys are exactly the keys of the child batch just read (ghost lastKeys vs pseq), the number of keys handed to BatchDelete equals the number of rows drained, no Put/BatchPut/Delete is in the frame, and the plan executes once (executed flag).",
		[]string{
			"A-COMP-C11: that the union of the consecutive batches is the whole child sequence, and that this sequence is what `select * where P [limit]` returns (C01, C02, C08), are composition steps argued on paper",
			"A-STORE: BatchDelete(keys) removes exactly those keys; a failing call leaves the store unchanged",
			"not yet under contract for this property: optimizer.buildDeletePlan and the DELETE -> REMOVE shortcut (exactness of MGET regions)",
		}},
	"C12": {"proof",
		"PutPlan and RemovePlan (processKVPair/processKey, execute, Init, Next, Batch) are proved: each key/value is the evaluated expression (the value expression sees its own pair's evaluated key), no storage call is issued before every expression has evaluated, exactly one call is issued on success (none for n=0, Put/Delete for n=1, BatchPut/BatchDelete with the pairs in order for n>=2), and after completion polling issues nothing (executed flag; ghost counters nmut/nops).",
		[]string{
			"A-EVAL: Expression.Execute is a function of the expression and the pair (interface contract of contracts_verif_storage.go; its implementations are verified under C01/C05 where claimed)",
			"A-STORE: Put/BatchPut/Delete/BatchDelete apply their arguments in order; that a following select observes the writes is C01 on the new state",
			"not yet under contract for this property: parser.parsePut/parseRemove and the statement validators",
		}},
	"C18": {"proof",
		"Tightness of the planner, on the same functions as C02: each key-pinning atom yields exactly its documented scan type and literals (= / IN -> point reads, ^= -> prefix, > >= < <= / BETWEEN -> range, false and key < '' -> empty); every intersection helper and optimizeAndExpr return a region contained in one operand's region (two ghost keys), disjoint equalities / prefixes / ranges give EMPTY; Optimize() maps each scan type to the corresponding plan kind with the same keys; and the scan plans read, through their cursor, only keys of the region plus at most the one that ends it (PrefixScanPlan / RangeScanPlan Init seek to the region start; MultiGetPlan issues exactly one Get per listed key; EmptyResultPlan issues no storage operation).",
		[]string{
			"A-COMP-C18: the per-construct statements (atoms, AND, plan kind, scan region) compose to the property by a paper argument over the predicate tree",
			"A-STORE: Seek(p) positions a snapshot cursor at the first key >= p; keys ascend strictly (axiom csorted)",
			"the Batch forms of the scan plans are not yet under contract (the row forms are)",
		}},
	"C13": {"proof",
		"Typestate of storage errors and read-only frames: every Storage / Cursor operation requires !failed and sets failed / lastErr on error; every plan function under contract has the postcondition failed ==> err == lastErr (the error is returned unchanged) and, by its precondition obligations at the call sites, issues no storage operation once one has failed; the scan plans, filter and limit plans have frames without the ghost write counters (nmut unchanged: no mutating call); buildDeletePlan returns only after Init and surfaces its error.",
		[]string{
			"scope: proved per API call of the functions listed under functions_under_contract (now including the Batch forms of the four scans and the grouping loops AggregatePlan.prepare / prepareBatch); the whole plan-building path is under contract for this property (BuildPlan, buildPlan, buildSelectPlan, buildFinalPlan, buildPutPlan, buildRemovePlan, buildDeletePlan: planning never issues a mutating operation and an error of a cursor creation / seek during Init is returned unchanged; Optimizer.init - parsing, checking, rewriting - is a thin assumed contract: it has no access to a store), as is FinalOrderPlan, and ProjectionPlan.Batch / processProjectionBatch",
			"A-STORE: the Storage implementation reports failure only through the returned error",
		}},
	"C06": {"proof",
		"Panic-freedom of the functions under contract: for every function that any property puts under contract the engine generates, without annotation, one obligation per run-time-panic site of its go/ssa form - nil dereference (field access, method call on a nil interface, call of a nil func value), index out of range, slice bounds, unchecked type assertion, integer division by zero, write to a nil map, make with a negative length, explicit panic - and discharges it from the function's precondition, its loop invariants and its callees' postconditions, for all inputs. Loops with a decreases clause are additionally proved to terminate.",
		[]string{
			"scope: the functions listed under functions_under_contract (this is not the whole-program statement: the parser, checker, lexer, scalar functions, order and aggregate plans are not yet under contract; stack depth and termination of loops without a decreases clause are not addressed)",
			"the preconditions under which a function is panic-free are those of its contract; that every caller establishes them is checked at the call sites that are themselves under contract",
			"panics inside standard-library callees are not modelled (regexp.Compile and strconv return errors; fmt does not panic on the values passed)",
		}},
	"C01": {"proof",
		"Row mode, proved on the real code. (1) The evaluator computes the documented meaning of the operators from the values of their operands: BinaryOpExpr.Execute, for every operator code, operand values and pair - `=`/`!=` (equal bytes for texts, equal numbers for integers, equal truth values), `^=` (prefix), `&`/`|` and their keyword forms (Boolean, left to right, the right operand not needed when the left decides), `> >= < <=` (byte-wise on texts when the left operand's static type is text, numeric otherwise: integers exactly, anything involving a float as floats), `+ - * /` (integers stay integers with truncating division, any float operand makes it a float operation, division by zero is an error), `!`; literals and key / value evaluate to themselves; each with its exact definedness condition (when it returns an error). (2) The scans return exactly the filtered pairs in cursor order: FullScan / PrefixScan / RangeScan / MultiGet Next return the next pair of the cursor (or key list) on which the filter evaluates to true, every pair skipped before it fails the filter (ghost index), the end is reported only when the cursor (region) is exhausted, and Seek / prefix / range bounds lose no key of the region (byte-string order axioms). (3) Filter returns exactly `the filter expression evaluates to the Boolean true`.",
		[]string{
			"BETWEEN and IN are covered in row mode: execStringBetween / execNumberBetween compute `lo <= x && x <= hi` (bytes / integers) with exact definedness (equal bounds accepted: D26 repaired; bounds in the wrong order are refused), execStringIn / execNumberIn over a literal list compute `some element equals x` (bounded existential, loop invariant `no match among the first n`), and both are part of the documented-meaning predicate docBin that BinaryOpExpr.Execute is proved against",
			"`~=` is covered relative to the standard library: regexp.Compile succeeds exactly for the patterns reOk names and Match is the relation reMatch of pattern and text (T-STD); the row form and the vector form (with its per-chunk cache of compiled patterns: map invariant) are proved against it; text concatenation yields the concatenated bytes",
			"NOT covered: IN over a function-valued list (proved total for the list kinds functions return: D27 repaired; element values not modelled), float bounds of BETWEEN (kinds only), scalar functions and field access (C10), string concatenation's value, the batch-mode twins (C03), that the composition scan -> projection -> caller yields each pair once (on paper from the per-call contracts and the cursor axioms)",
			"batch mode of the scans is covered: FullScanPlan / PrefixScanPlan / RangeScanPlan .Batch return exactly the filter-passing pairs of the cursor segment they consume, in cursor order (rows, gaps, tail, end clauses over the positions recorded in chooseIdxes); MultiGetPlan.Batch returns only stored, listed, passing pairs with their stored values and reads every listed key before a short batch - that it returns every such pair is NOT stated (it needs an existential over the result that the solvers do not carry through the three loops)",
			"A-EVAL: the outcome of evaluating an expression on a pair is a function of the expression and the pair; for operator nodes the interface clauses `evalok` / `evalv` name that outcome (definitional), the proved clauses relate it to the operands' outcomes",
			"A-STORE: a cursor iterates a snapshot in strictly ascending key order, Seek positions at the first key >= its argument",
			"static result types (rtype) are the specification function of C14 (A-RTYPE)",
			"D14 (DESIGN.md section 6): `=` on two floats is an execution-time type error; the documented `=` is `bytes level equals`, so this is not claimed as a violation here",
		}},
	"C03": {"proof",
		"Row / batch twins, each proved against the same meaning as its row form. (1) Expressions: the interface contract of ExecuteBatch says that a batch that completes has evaluated every row and element i of the result is the value of the expression on pair i; proved for the literal, key / value and ! nodes and, through the documented-meaning predicate doc_bin that the row evaluator was proved to compute (C01), for the vector forms of = != ^= & | > >= < <= + - * / (execEqualBatch, execPrefixMatchBatch, execAndOrBatch, execMathBatch, execNumberCompareBatch, execStringCompareBatch and the dispatcher) with loop invariants over the in-place combination of the operand columns. (2) The filter on a chunk gives exactly the row filter's verdicts. (3) Function calls accept the same argument counts in both forms (D7 repaired). (4) The four batch scans keep, for every pair they return, its position within everything filtered in the call, in strictly ascending order (what AdjustChunkCache needs to re-index the chunk caches; D8 repaired in MultiGetPlan.Batch). LimitPlan / FinalLimitPlan Batch vs Next are C08's contracts (same ghost sequence).",
		[]string{
			"BETWEEN in batch mode (execBetweenBatch) is proved row by row against the same meaning and connected to the row form through docBin for text operands (typo in its upper-bound type test repaired); IN over a literal list of texts (execInBatch, three nested loops), `~=` (execRegexpMatchBatch) and text concatenation (execStringConcateBatch) are proved row by row against the same meanings; the dispatcher's `twin` clause is now proved without the definitional interface clause in scope (a vacuity hole of `ifaceassumed`, closed; canary `(*sq).area`)",
			"batch scans: the three cursor scans return exactly the filter-passing pairs of the cursor segment they consume, in order, and a short batch means the region is exhausted - the same sequence the row forms produce call by call (C01 clauses found / skipped / end); MultiGetPlan.Batch: soundness and progress only (see C01)",
			"vector functions that evaluate row by row (join, int_list, float_list, functions without a vector body) are proved to call the row form without the shared per-row cache (D22 repaired) and int_list / float_list to produce the row form's lists",
			"row-mode projection shows every documented value kind, lists included (D24 repaired); FieldReferenceExpr.ExecuteBatch returns a slice of its own (callers overwrite operand columns in place) and, with the cache off, the alias's values; vector forms of the scalar functions: see C10",
			"NOT covered: projection / order / aggregate-rendering batch forms, the chunk caches (FieldReferenceExpr.ExecuteBatch, AdjustChunkCache: assumed thin contract; D21 repaired but not yet pinned by an obligation)",
			"the vector form of & and | evaluates both operands on every row (no short cut): it can fail where the row form succeeds; the property only demands the converse, which is what is proved",
			"doc_bin / doc_not restate, through the definitional interface clauses, what BinaryOpExpr.Execute / NotExpr.Execute were proved to compute (same predicates docBin / docNot in both places)",
			"the registered function bodies are called through function values with assumed frame-only contracts",
		}},
	"C04": {"proof",
		"Two of the three rewriting steps are proved on the real code. (1) Boolean simplification (tryOptimizeAndOr): for an arbitrary pair, wherever the original expression evaluates the rewritten one evaluates to the same Boolean (12 return sites: true & x, x & false, false | x, ... and the all-literal cases), against the documented short-circuit meaning of & and |. (2) Constant folding of a binary node (tryOptimizeBinaryOpExecute): the literal that replaces the node carries exactly the value Execute returned, of the same kind (integer stays integer, float stays float, text stays text, Boolean stays Boolean), the unchecked type assertions cannot fail, and child links are never left nil.",
		[]string{
			"the meaning of & | and of a Boolean literal (axioms ev_and, ev_or, ev_bool) and the result kinds of BinaryOpExpr.Execute are taken from the README; that Execute implements them is C01's subject (assumed contract, listed)",
			"NOT covered: re-association of + and * chains (tryReorderBinaryOp, isBinaryOpExprAllValue), folding of constant function calls (tryOptimizeFunctionCall: assumed thin contract), and the composition over the whole tree (in-place mutation of a tree needs an ownership argument outside this contract language)",
			"floats are uninterpreted: no claim about IEEE rounding of re-associated chains (outside the property by its own quantifier)",
		}},
	"C10": {"proof",
		"Row forms, proved on the real code against the one-line descriptions of the README: the coercions toString / toInt / toFloat (an integer renders in decimal - fmt's %d is strconv's decimal rendering -, decimal text reads back as that integer / float, text stays text), str / int / float / is_int / is_float / strlen (byte count) on the value of their argument with exact definedness, substr (the bytes from start up to end, both clamped; D6 repaired), len (element count of every list representation: []string, []int64, []float64, [][]byte, []any; D17 repaired) and byte count of a text, int_list / float_list (arguments in order: ghost index), indexing with [n] (element n of []any / []string / []int64 / []float64; D17 repaired), and l2_distance / cosine_distance refusing vectors of different lengths.",
		[]string{
			"vector (batch) forms: str / int / float / is_int / is_float / strlen / substr / len / split / list / int_list / float_list are proved to produce, row by row, what their row forms produce (same postconditions over the value of the arguments on pair r); split is specified by provenance only (the list strings.Split returns for exactly this text and separator: T-STD), list() by its int / float dispatch on the row's own first value (D25 repaired)",
			"NOT covered: upper / lower (case mapping is strings.ToUpper / ToLower: T-STD), the elements of split's result and the split / join inverse relation (needs a theory of strings.Split / Join), join's value, the numeric value of the distances (uninterpreted floats), json() parsing and dictionary access (encoding/json is external), the vector forms of upper / lower / json / join (value) / the distances",
			"T-STD: strconv.ParseInt(strconv.Itoa(i)) == i (axiom), fmt.Sprintf(\"%d\", i) == strconv.Itoa(i) for integer values",
			"int('abc') returns 0 rather than the documented error: observed, not claimed either way",
		}},
	"C14": {"proof",
		"The type checker (checker.go) is under contract. (1) Operand rules: a nil result of checkWithAndOr / checkWithMath / checkWithCompares / checkWithIn / checkWithBetween / NotExpr.Check / ListExpr.Check / FieldAccessExpr.Check / FieldExpr.Check guarantees the documented rule for that operator (both operands Boolean; both numeric or `+` on two texts, literal division by zero refused; equal types, ordered comparisons on numbers or text, ^= ~= on text; IN elements of the left operand's type or a list-valued call; BETWEEN on text or numbers with two bounds of the same type; ! on a Boolean; lists homogeneous and non-empty; key / value refused where the statement form forbids them), stated over the static result type rtype of the operands. (2) Wherever the fault sits: a nil result of any Check implies (ghost mark chk) that every operand, list item, argument and field-access operand below it was itself checked - proved for BinaryOpExpr, NotExpr, ListExpr, FieldAccessExpr, FunctionCallExpr against the interface contract of Expression.Check, with the in-place alias rewriting (a name replaced by a reference to the select field it denotes) modelled exactly. (3) Check only ever returns SyntaxError values and touches no storage (frames).",
		[]string{
			"KNOWN FINDING D13 (not repaired, the pinned tests require it): FunctionCallExpr.Check does not look the function up, so unknown functions and wrong argument counts are accepted at build time",
			"A-RTYPE: the static result type of an expression is treated as a function of the expression object; the checker asks for an operand's type only after everything below it has been checked and rewritten",
			"NOT covered: the converse (every statement the rules allow is accepted and never fails with an operand-type error at execution), the statement-level keyword restrictions in parser.go (parsePut / parseRemove / parseDelete set the CheckCtx flags), ReturnType implementations (rtype is the specification of their results; they are checked against it only for the literal node kinds), and that BuildPlan runs the checker before any storage call (C13 covers the storage side)",
			"GetNamedExpr has a thin assumed contract (a found field expression is non-nil)",
		}},
	"C15": {"proof",
		"Precedence climbing, proved on the real parser code (parseExpr, parseBinaryExpr, parseUnaryExpr, parsePrimaryExpr, parseOperand, parseFuncCall, parseFieldAccess, parseList, parseBetween, tokPrec, expect, next, BuildOp, Token.Precedence): (1) Token.Precedence is exactly the documented table (| or = 1 < & and = 2 < comparisons, in, between = 3 < + - = 4 < * / = 5, everything else lowest) and BuildOp maps each documented spelling to its operator code; (2) every BinaryOpExpr node the parser builds, for every token sequence, has a left operand whose level is at least the operator's documented strength and a right operand whose level is strictly greater (ghost level: 6 for operands / unary / call / index / parenthesised / list expressions, the operator's strength for a binary node) - which is 'binds by documented strength, left-associatively, parentheses overriding'; (3) parseBinaryExpr(prec) stops exactly in front of an operator weaker than prec, BETWEEN's bounds bind tighter than the comparison level so its `and` is not taken for the conjunction, and the strength recorded in the tree (by operator code) agrees with the strength used while climbing (by token text).",
		[]string{
			"NOT covered: the round trip through Expression.String() and the lexer (re-parsing rendered text needs reasoning about the lexer on symbolic strings), case folding (lexer), and that tokens are consumed strictly in order without skipping (only monotonicity of the cursor is proved)",
			"the ghost level is maintained by ghost statements in the contract file (atend / atreturn); it influences no executable code",
			"an `in (list)` node closes at the list's parenthesis and is given level 6: what follows it continues as after a parenthesised expression (a list is not an operand of any documented operator)",
			"termination / stack depth of the mutually recursive parser functions is not proved here",
		}},
	"C16": {"proof",
		"The lexer is under contract. buildToken: the token is nil exactly for blank input, otherwise it carries the lower-cased trimmed word, the offset of the word's first byte (leading white space skipped) and the kind given by the documented keyword table, then integer, float, name. Lexer.Split, for every query string: every token appended to the result satisfies tokP - a STRING token's text is exactly the bytes between two equal quote characters (' or \") at Pos and Pos+len+1; a back-quoted NAME likewise; every other token's text equals (symbols, two-character operators) or is the lower-case form of (words, keywords, numbers) the query bytes at [Pos, Pos+len), which lie inside the query - proved with a loop invariant over the scanner state (pending word = query[tokStart:i], quote state, previous byte) and one local obligation per append site (13), invariant preservation decided path by path (25 paths).",
		[]string{
			"NOT covered: that spacing between tokens is irrelevant (a relation between two runs: outside per-call contracts), that a quoted literal contains no earlier closing quote (would need a quantified scanner invariant; the closing quote found is the first one by construction of the scan), that no query byte outside blanks is dropped (`^` or `~` not followed by `=` is silently skipped), case folding beyond T-STD",
			"T-STD: strings.ToLower preserves length; strings.TrimSpace / TrimLeftFunc(unicode.IsSpace) remove lead(s) leading bytes; strconv.ParseInt / ParseFloat success are the spec predicates parseIntOk / parseFloatOk",
			"tokP_def is the definition of the token predicate (unfolded at the append sites only)",
		}},
	"C17": {"proof",
		"Error rendering and error positions, proved on the real code. (1) outputQueryAndErrPos, for every query text, offset and padding: the result is <window>\\n<blanks>^--\\n; the window shows a piece of the trimmed query that contains the offset (cut marks `... ` / ` ...` at the ends), and for an offset inside the trimmed text the caret column points at exactly the byte query[offset] of the ORIGINAL (untrimmed) query; -1 puts the caret just past the end; no slice goes out of range for any offset (the window width and cut positions are the code's choice and are not pinned, so changing them is not an alarm). (2) SyntaxError/ExecuteError.Error() after BindQuery start with exactly that rendering for the carried offset and padding; NewSyntaxError / NewExecuteError carry the position they are given. (3) Every SyntaxError produced by the expression parser (parseExpr ... parseOperand, expect) carries -1, 0 or the Pos of one of the parser's tokens.",
		[]string{
			"NOT yet covered: positions of errors raised by the statement-level parser functions (parseSelect, parsePut, ...), by the checker (AST node positions are token positions: needs a tree invariant) and at execution time; that a token's Pos lies inside the query is the lexer's contract (C16, not yet claimed)",
			"T-STD: strings.TrimSpace removes lead(s) leading and trail(s) trailing bytes; strings.TrimLeftFunc(s, unicode.IsSpace) removes the same leading bytes; fmt.Sprintf of a constant format is a function of its arguments",
			"witnesses of the rendering statement (window text, cut flags, caret column) are read from the function's final local variables; a rename of those locals needs the contract file to follow",
		}},
	"C05": {"proof",
		"Row mode, proved on the real code. (1) An alias is a pure abbreviation: FieldReferenceExpr.Execute returns, for every pair, cache content and cache switch, exactly the outcome and value of its defining expression on that pair. (2) The row cache is invisible: the cache is *coherent* with a pair when every entry holds the value of its alias on that pair; evaluating any expression requires and preserves coherence (interface contract of Expression.Execute, active under this property), SetFieldResult / GetFieldResult / Clear are proved against the map semantics, and every row-mode scan (full, prefix, range, multi-get) is proved to establish coherence for each pair before it filters it - which failed on the pinned tree (D5, repaired) - and to hand the returned pair over with a cache coherent with exactly that pair; LimitPlan passes this on. (3) ProjectionPlan.Next returns one column per field, in order, column k being the value of field k on the pair the child produced - whether it came out of the cache or was evaluated - and `select *` returns the stored key and value.",
		[]string{
			"aggregation is covered at the level of the cache discipline: AggregatePlan.prepare / prepareBatch are proved to hand getAggrKey, createAggrRow and updateRowAggrFunc a context whose per-row cache is coherent with the pair being processed (D23 repaired: the cache is cleared per pair), and the accumulators' Update to require and preserve coherence; the vector forms that fall back to row evaluation run without the shared row cache (D22 repaired)",
			"per-chunk caches: the typestate that pins D21 is proved - AdjustChunkCache (body verified) and with it every scan batch leave no per-chunk entry behind, and the aggregate's batch key computation requires that; A-CHUNKCACHE (within one scan batch the filtered chunks have distinct first keys, so an entry found under (alias, first key) holds the alias's values on the current chunk) is still an assumption, as are the lengths of the final-result columns that the batch projection reads",
			"batch projection: ProjectionPlan.Batch returns one row per pair the child returned and one column per field (select *: the stored key and value), processProjectionBatch is proved safe and of the right shape given that the final-result columns of the scan are at least as long as the chunk (interface clause `finalcols` of Plan.Batch and `colsok` of ExecuteBatch: assumptions about the scans / evaluators, part of A-CHUNKCACHE); that a cached column holds the field's values is NOT proved", "NOT covered: LimitPlan.Batch's part of the typestate, aliases in ORDER BY, and the statement-level rewriting that replaces names by references",
			"A-ALIAS: every alias reference points at the select field of its name, field names of a statement are distinct (aliasOf is the function from names to select fields); the checker's rewriting is proved to create references only from names (C14) but the link to aliasOf is assumed",
			"A-EVAL: the outcome of evaluating an expression on a pair is a function of the expression and the pair (evalok / evalv); ev_ref is the documented meaning of a reference",
			"ProjectionPlan.Next requires a non-nil execution context (it calls ctx.Clear() unconditionally)",
		}},
	"C07": {"proof",
		"Order plan, proved on the real code: the comparators return the sign of the documented order (integers and floats numerically, text byte-wise, false before true, negated for DESC; values of different kinds compare as unordered instead of panicking); Less is exactly the lexicographic order over the ORDER BY keys (first differing key decides, ties are not less - stated with a ghost index); the heap adapter's Len/Swap/Push/Pop/Less are exact; Init resolves every order field to the position of the select field of that name; prepare/prepareBatch push every row of the child exactly once (ghost heap size = total - pos, child drained), Next/Batch pop one row per returned row and stop exactly when all have been returned; buildFinalOrderPlan elides only a lone `order by key asc` on a non-aggregate query.",
		[]string{
			"T-STD: container/heap.Pop returns a minimum (by the adapter's Less) of the rows pushed and not yet popped - that the output is sorted and a permutation rests on this and on the proved facts that Less is the documented order and that every row is pushed and popped exactly once",
			"kcmp is the name given to the result of compare (a definitional clause, admissible because compare reads no memory)",
			"that a lone `order by key asc` may be elided rests on C01 (scan order), not yet claimed",
		}},
	"C09": {"proof",
		"The accumulators count, sum, avg, min and max are proved to be left folds in scan order: Update is exactly one fold step on convertToNumber of the argument's value for the pair (state unchanged when the argument fails to evaluate), Complete reads the documented result out of the state (integer sum unless a float was seen; avg = sum / count as floats; min / max by the integer or float reading), Clone yields the initial state in a fresh object. convertToNumber is evaluated in place (pure). The group key of a row is the length-prefixed encoding of its rendered group-by values, which distinct value tuples cannot share (defect D16, repaired).",
		[]string{
			"group keys are covered (getAggrKey and its batch twin batchGetAggrKeys return gkN = the length-prefixed encoding of the rendered group-by values, proved injective for 1, 2 and 3 group-by columns by lemmas gk_inj1..3 / group_sound1..3 over the cat-cancellation axiom; text, Boolean, integer and float values are rendered injectively per kind - lemma render_inj; floats with %v, D28 repaired); the grouping loops prepare / prepareBatch are under contract: cache discipline (C05), error surfacing (C13) and dispatch (at the end of every iteration the updated row is the group map's entry for the pair's key, and a row created in the iteration is the last of aggrRows); NOT yet covered: the global statement (one row per distinct key over the whole scan, aggregates over exactly the group's pairs: on paper from dispatch + the accumulator folds), createAggrRow / updateRowAggrFunc bodies (thin assumed contracts), next / batch rendering (the Result memo of aggregate call nodes is rewritten per group: outside A-EVAL), json.Marshal of json_arrayagg's items, quantile",
			"group_concat is covered as a left fold: Update appends toString of the argument's value, Complete is strings.Join of the items with the separator (joinN, T-STD, unfolded: joined(items ++ [s]) = joined(items) ++ sep ++ s), Clone starts empty with the same separator; json_arrayagg: Update appends the value (numbers and Booleans as they are, bytes as text), Clone starts empty; min / max Clone start unset",
			"axiom cat_cancel (cat(a, b) = cat(a, c) implies b = c, and equal-length prefixes of equal concatenations are equal) and be32 injective below 2^32 are assumed of byte strings; a rendered value longer than 4 GiB is outside the model",
			"A-EVAL: the value of the aggregate's argument is evalv of the interface contract of Expression.Execute",
			"floats are uninterpreted (fadd / fdiv / flt): the fold order is the code's, no IEEE fact is used; int64 is mathematical (A-INT)",
		}},
}

func propLevel(p string) (string, bool) {
	if i, ok := propInfo[p]; ok {
		return i.level, true
	}
	return "proof", false
}

func propExplanation(p string) string { return propInfo[p].explanation }

func propAssumptions(p string, sp *Specs) []string {
	out := append([]string{}, propInfo[p].assumptions...)
	out = append(out,
		"A-INT: machine integers are treated as mathematical integers",
		"the SMT prelude's byte-string theory (total order, prefix order, convexity of prefix sets, concatenation) holds of []byte under bytes.Compare / bytes.HasPrefix",
	)
	return out
}
