package main

// Per-property metadata reported in the evidence files.

var propInfo = map[string]struct {
	level       string
	explanation string
	assumptions []string
}{
	"C02": {"proof",
		"Every function of filter_optimizer.go is under contract: covers(result, k) is implied by the documented meaning of the predicate (holds) for an arbitrary ghost key k, for AND/OR by the intersection/union of the operands' regions; obligations are generated from the go/ssa form of the working tree and discharged by SMT for all keys, literals and predicate trees (recursion through the contract of optimizeExpr).",
		[]string{
			"oracle: the sem_* axioms of contracts_verif_filter.go transcribe the README's meaning of key = / ^= / > >= < <= / in / between / & | ; any other atom is unconstrained (may hold anywhere)",
			"A-COMP-C02: that the plan built by Optimize() reads exactly covers(scan type) is the subject of the scan-plan contracts (C01/C18), composed on paper",
		}},
}

func propLevel(p string) (string, bool) {
	if i, ok := propInfo[p]; ok {
		return i.level, true
	}
	return "proof", false
}

func propExplanation(p string) string { return propInfo[p].explanation }

func propAssumptions(p string, sp *Specs) []string {
	out := append([]string{}, propInfo[p].assumptions...)
	out = append(out,
		"A-INT: machine integers are treated as mathematical integers",
		"the SMT prelude's byte-string theory (total order, prefix order, convexity of prefix sets, concatenation) holds of []byte under bytes.Compare / bytes.HasPrefix",
	)
	for _, n := range sortedKeys(sp.Axioms) {
		if sp.Axioms[n].Cex {
			continue
		}
		out = append(out, "axiom (trusted, from the documentation): "+n+" — "+sp.Axioms[n].Body.String())
	}
	return out
}
