package main

import (
	"fmt"
	"go/token"
	"go/types"
	"sort"
	"strings"

	"golang.org/x/tools/go/ssa"
)

func newGen(p *Program, sp *Specs, dropped map[string]bool) *Gen {
	g := &Gen{P: p, Specs: sp, s: newScript(), heapSo: map[string]string{}, inits: map[string]*HV{}, frameI: map[string]bool{}, tags: map[string]int{},
		dropped: dropped, constMapsUsed: map[string]bool{}, touched: map[string]bool{}, trustedUse: map[string]bool{}, structs: map[string]*types.Struct{}, memSeen: map[string]bool{},
		ghostVals: map[string]CV{}, paramVals: map[string]CV{}, exIDs: map[string]string{}, instTerms: map[string][]string{}, ifaceUse: map[string]bool{}, heapRead: map[string]bool{}}
	if g.dropped == nil {
		g.dropped = map[string]bool{}
	}
	g.declHeap("alloc", "Int")
	// struct datatypes named in spec-function / ghost declarations
	need := func(so string) {
		if strings.HasPrefix(so, "S.") {
			if o := p.Pkg.Types.Scope().Lookup(strings.TrimPrefix(so, "S.")); o != nil {
				g.sortOf(o.Type())
			}
		}
	}
	for _, sf := range sp.SpecFuns {
		for _, a := range sf.Args {
			need(a)
		}
		need(sf.Ret)
	}
	for _, so := range sp.GhostVar {
		need(so)
	}
	for _, gf := range sp.GhostFld {
		need(gf[1])
	}
	return g
}

// sigTypes returns the Go types of receiver+parameters of a function.
func paramTypes(fn *ssa.Function) []types.Type {
	var ts []types.Type
	for _, p := range fn.Params {
		ts = append(ts, p.Type())
	}
	return ts
}

// genFunc generates every obligation of one function under contract.
func (g *Gen) genFunc(fs *FuncSpec) {
	fn := g.P.Funcs[fs.Key]
	if fn == nil {
		fail("contract for %s: no such function in the package", fs.Key)
	}
	g.fn, g.spec = fn, fs
	if len(fs.Params) != len(fn.Params) {
		fail("contract %s declares %d parameters, the function has %d", fs.Key, len(fs.Params), len(fn.Params))
	}
	for k, p := range fn.Params {
		if fs.Params[k].Name != p.Name() && !strings.HasPrefix(fs.Params[k].Name, "_") {
			fail("contract %s: parameter %d is called %q in the code, %q in the contract", fs.Key, k, p.Name(), fs.Params[k].Name)
		}
	}
	req, ens, asg, ghosts, rename := g.clauses(fs)
	st0 := &State{cells: map[*ssa.Alloc]T{}, heap: map[string]*HV{}}
	g.alloc(st0)
	// the goal skolems of the first two nesting depths exist from the start, so that every
	// assumed universal fact (nested ones included) is instantiated at them
	for _, n := range []string{"QK.Int.0", "QK.Int.1", "QK.Ref.0"} {
		g.s.declNamed(n, "Int")
	}
	g.addInstTerm("Int", "QK.Int.0")
	g.addInstTerm("Int", "QK.Int.1")
	g.addInstTerm("Ref", "QK.Ref.0")
	vars := map[string]CV{}
	var args []T
	for k, p := range fn.Params {
		v := g.s.declNamed("p."+sanitize(fs.Params[k].Name), g.sortOf(p.Type()))
		g.s.assume(g.typeInv(st0, v, p.Type()))
		if pt, ok := p.Type().Underlying().(*types.Pointer); ok {
			if _, named := pt.Elem().(*types.Named); named {
				g.s.assume(imp(not(eq(v.S, "0")), eq("(dyn "+v.S+")", g.tag(p.Type()))))
			}
		}
		vars[fs.Params[k].Name] = CV{v, p.Type()}
		g.paramVals[fs.Params[k].Name] = CV{v, p.Type()}
		if g.sortOf(p.Type()) == "Int" && isRefType(p.Type()) {
			g.addInstTerm("Ref", v.S)
		}
		args = append(args, v)
	}
	for _, gp := range ghosts {
		ty, so := g.resolveType(gp.Sort)
		v := CV{g.s.declNamed("g."+sanitize(gp.Name), so), ty}
		if ty != nil {
			g.s.assume(g.typeInv(st0, v.T, ty))
		}
		vars[gp.Name] = v
		g.ghostVals[gp.Name] = v
		g.addInstTerm(so, v.S)
	}
	withAliases(vars, rename)
	g.entry = st0
	env0 := &Env{g: g, st: st0, old: st0, vars: vars, pc: "true", hyp: true}
	var reqs []string
	for _, c := range req {
		if !g.wantClause(c) {
			continue // a precondition that belongs to another property is not assumed here
		}
		h := env0.tr(c.E, true)
		env0.want(h, "Bool", c.E)
		reqs = append(reqs, h.S)
		g.s.assume(h.S)
	}
	for _, u := range fs.Uses {
		g.useAxiom(env0, u)
	}
	g.obs = append(g.obs, &Oblig{Name: fs.Key + "#cover.requires", Kind: "cover", PC: "true", Goal: "true", Clause: "the precondition is satisfiable", Fn: fs.Key, Script: g.s, Cover: true})
	f := g.newFrame(fn, "", true)
	f.run(args, st0, "true")
	// returns in source order
	sort.SliceStable(f.rets, func(i, j int) bool { return f.rets[i].pos < f.rets[j].pos })
	names := g.resultNames(fs, fn.Signature.Results().Len())
	g.retNames = names
	// assigned locations (entry-state refs) by heap
	asgBy := map[string][]loc{}
	for _, a := range asg {
		l := env0.locOf(a)
		if l.skip {
			continue
		}
		asgBy[l.heap] = append(asgBy[l.heap], l)
		if strings.HasPrefix(l.heap, "Mh.") { // a map location covers presence and value
			mv := "Mv." + strings.TrimPrefix(l.heap, "Mh.")
			asgBy[mv] = append(asgBy[mv], loc{heap: mv, ref: l.ref, all: l.all})
		}
	}
	if len(fs.Defines) > 0 {
		// a definitional clause is admissible only for a function that reads no memory: its result
		// is then a function of its arguments alone
		for _, h := range sortedKeys(g.heapRead) {
			if h != "alloc" && !strings.HasPrefix(h, "ghost.") {
				fail("contract %s: 'defines' on a function that reads memory (%s)", fs.Key, h)
			}
		}
		for _, c := range fs.Defines {
			e0 := &Env{g: g, st: st0, old: st0, vars: vars, pc: "true", hyp: true}
			for k, nm := range names {
				_ = k
				_ = nm
			}
			_ = e0
			_ = c
		}
	}
	g.postStart = len(g.s.lines)
	defer func() { g.postStart = 0 }()
	for n, r := range f.rets {
		g.retCut = r.cut
		rv := map[string]CV{}
		for k, v := range vars {
			rv[k] = v
		}
		for k, nm := range names {
			rv[nm] = CV{r.vals[k], fn.Signature.Results().At(k).Type()}
		}
		withAliases(rv, rename)
		env := &Env{g: g, st: r.st, old: st0, vars: rv, pc: r.pc, hyp: false, frame: f}
		for k, gs := range fs.AtRet {
			r.pc = f.ghostStmt(gs, env, r.st, r.pc, fmt.Sprintf("%s#atreturn.%s@ret%d", fs.Key, ghostLabel(gs, k), n), r.pos)
			env.pc = r.pc
		}
		for _, c := range fs.Defines {
			henv := &Env{g: g, st: r.st, old: st0, vars: rv, pc: r.pc, hyp: true}
			g.s.assumeUnder(r.pc, henv.tr(c.E, true).S)
		}
		for _, u := range fs.UsesRet {
			henv := &Env{g: g, st: r.st, old: st0, vars: rv, pc: r.pc, hyp: true}
			g.useAxiom(henv, u)
		}
		assumedLbl := map[string]bool{}
		for _, l := range fs.IfaceAssumed {
			assumedLbl[l] = true
		}
		for _, c := range ens {
			// interface clauses that are definitional for this implementation: hypotheses at its returns
			if c.Label != "" && assumedLbl[c.Label] && fs.Impl != "" {
				// (not assumed while the implementation's own clauses are proved: with the
				// definitional clause in scope a clause such as `twin: rowsOf(e, chunk, ret)`
				// would be proved by the assumption instead of by the code)
				g.trustedUse["definitional: "+fs.Impl+" clause `"+c.Label+"` names the outcome of "+fs.Key] = true
			}
		}
		for k, c := range ens {
			if !g.wantClause(c) {
				continue
			}
			if c.Label != "" && assumedLbl[c.Label] && fs.Impl != "" {
				continue
			}
			goal := env.tr(c.E, true)
			env.want(goal, "Bool", c.E)
			lbl := c.Label
			if lbl == "" {
				lbl = fmt.Sprint(k)
			}
			o := f.oblig("ensures", fmt.Sprintf("%s#ensures.%s@ret%d", fs.Key, lbl, n), r.pc, goal.S, "ensures "+c.Text, r.pos, c.Props)
			_ = o
		}
		// frame: nothing that existed at entry changed, except the assigned locations
		for _, h := range sortedKeys(g.touched) {
			if h == "alloc" || strings.HasPrefix(h, "iter.") {
				continue
			}
			so := g.heapSort(h)
			ls := asgBy[h]
			whole := false
			var exc []string
			idxBy := map[string][]string{}
			for _, l := range ls {
				if l.all || l.ref == "" {
					whole = true
				}
				if l.idx != "" {
					idxBy[l.ref] = append(idxBy[l.ref], l.idx)
					continue
				}
				exc = append(exc, l.ref)
			}
			if whole {
				continue
			}
			h0 := g.heapInit(h)
			var goal string
			if strings.HasPrefix(so, "(Array") {
				conds := []string{"(<= RK " + g.alloc(st0) + ")", "(> RK 0)"}
				for _, e := range exc {
					conds = append(conds, not(eq("RK", e)))
				}
				now := g.readHeap(r.st, h, "RK")
				eqWhole := eq(now, app("select", h0.term, "RK"))
				if len(idxBy) > 0 {
					// element-level locations: the backing array keeps every other element
					g.s.declNamed("RK2", "Int")
					var isIdxRef, perRef []string
					for _, ref := range sortedKeys(idxBy) {
						var ne []string
						for _, ix := range idxBy[ref] {
							ne = append(ne, not(eq("RK2", ix)))
						}
						isIdxRef = append(isIdxRef, eq("RK", ref))
						perRef = append(perRef, imp(eq("RK", ref), imp(and(ne...), eq(app("select", now, "RK2"), app("select", app("select", h0.term, "RK"), "RK2")))))
					}
					goal = imp(and(conds...), ite(or(isIdxRef...), and(perRef...), eqWhole))
				} else {
					goal = imp(and(conds...), eqWhole)
				}
			} else {
				goal = eq(g.hv(r.st, h).term, h0.term)
			}
			f.oblig("frame", fmt.Sprintf("%s#frame(%s)@ret%d", fs.Key, h, n), r.pc, goal, "assigns: "+h+" is unchanged on objects that existed at entry (except the listed locations)", r.pos, nil)
		}
	}
}

func ghostLabel(gs *GhostStmt, k int) string {
	if gs.Clause != nil && gs.Clause.Label != "" {
		return gs.Clause.Label
	}
	return fmt.Sprint(k)
}

// ghostStmt executes one ghost statement in state st: an assertion becomes an obligation (and
// then strengthens the path condition); an update writes ghost state only.
func (f *frame) ghostStmt(gs *GhostStmt, env *Env, st *State, pc, name string, pos token.Pos) string {
	g := f.g
	switch gs.Kind {
	case "assert":
		goal := env.tr(gs.Clause.E, true)
		env.want(goal, "Bool", gs.Clause.E)
		f.oblig("assert", name, pc, goal.S, "assert "+gs.Clause.Text, pos, gs.Clause.Props)
		return and(pc, goal.S)
	case "set":
		henv := *env
		henv.hyp = true
		l := henv.locOf(gs.LHS)
		if l.skip {
			return pc
		}
		if !strings.HasPrefix(l.heap, "GH.") && !strings.HasPrefix(l.heap, "ghost.") {
			fail("ghost update of non-ghost location %s", gs.LHS)
		}
		v := henv.tr(gs.RHS, true)
		so := g.heapSort(l.heap)
		if strings.HasPrefix(so, "(Array Int ") {
			so = strings.TrimSuffix(strings.TrimPrefix(so, "(Array Int "), ")")
		}
		if v.So != so {
			v = henv.coerce(v, so)
		}
		g.writeHeap(st, l.heap, l.ref, v.S)
	}
	return pc
}

func (g *Gen) wantClause(c *Clause) bool {
	if g.wantProp == "" || len(c.Props) == 0 || g.wantProp == "C06" {
		// (C06 is the panic-freedom view of every function under contract: it is taken under all
		// of a function's preconditions, whichever property they were written for)
		return true
	}
	for _, p := range c.Props {
		if p == g.wantProp {
			return true
		}
	}
	return false
}

// useAxiom instantiates a trusted axiom or a proved lemma: "use name(args)".
func (g *Gen) useAxiom(env *Env, u *CE) {
	if u.Op == "forall" && len(u.Args) == 1 && u.Args[0].Op == "call" && u.Args[0].Args[0].Op == "ident" && (g.Specs.Axioms[u.Args[0].Args[0].Name] != nil || g.Specs.Lemmas[u.Args[0].Args[0].Name] != nil) {
		// "use forall i T :: axiom(args(i))": the axiom at every i, instantiated lazily like any
		// assumed universal fact
		n := *env
		n.hyp = true
		n.axiomUse = true
		h := n.tr(u, true)
		g.s.assumeUnder(env.pc, h.S)
		return
	}
	if u.Op != "call" || u.Args[0].Op != "ident" {
		fail("use needs name(args): %s", u)
	}
	name := u.Args[0].Name
	ax := g.Specs.Axioms[name]
	lem := g.Specs.Lemmas[name]
	if ax == nil && lem == nil {
		fail("use of unknown axiom / lemma %s", name)
	}
	params := []ParamDecl{}
	if ax != nil {
		params = ax.Params
		if !ax.Cex {
			g.trustedUse["axiom:"+name] = true
		}
	} else {
		params = lem.Params
	}
	if len(u.Args)-1 != len(params) {
		fail("%s takes %d arguments", name, len(params))
	}
	vars := map[string]CV{}
	for k, p := range params {
		v := env.tr(u.Args[k+1], true)
		ty, so := g.resolveType(p.Type)
		if v.So != so {
			v = env.coerce(v, so)
		}
		if ty != nil {
			v.Ty = ty
		}
		vars[p.Name] = v
	}
	n := &Env{g: g, st: env.st, old: env.old, vars: vars, pc: env.pc, hyp: true}
	if ax != nil {
		h := n.tr(ax.Body, true)
		if ax.Cex {
			// only steers the search for counterexample models (cexmode is false in the proof encoding)
			g.s.assumeUnder(and("cexmode", env.pc), h.S)
			return
		}
		g.s.assumeUnder(env.pc, h.S)
		return
	}
	var pre, post []string
	for _, c := range lem.Requires {
		pre = append(pre, n.tr(c.E, false).S)
	}
	for _, c := range lem.Ensures {
		post = append(post, n.tr(c.E, true).S)
	}
	g.s.assumeUnder(env.pc, imp(and(pre...), and(post...)))
}

// genLemma: a lemma over spec functions, discharged as its own obligations.
func (g *Gen) genLemma(fs *FuncSpec) {
	g.spec = fs
	st0 := &State{cells: map[*ssa.Alloc]T{}, heap: map[string]*HV{}}
	g.alloc(st0)
	g.entry = st0
	vars := map[string]CV{}
	for _, p := range fs.Params {
		ty, so := g.resolveType(p.Type)
		v := CV{g.s.declNamed("p."+sanitize(p.Name), so), ty}
		if ty != nil {
			g.s.assume(g.typeInv(st0, v.T, ty))
		}
		vars[p.Name] = v
		g.ghostVals[p.Name] = v
	}
	env := &Env{g: g, st: st0, old: st0, vars: vars, pc: "true", hyp: true}
	for _, c := range fs.Requires {
		g.s.assume(env.tr(c.E, true).S)
	}
	for _, u := range fs.Uses {
		g.useAxiom(env, u)
	}
	genv := &Env{g: g, st: st0, old: st0, vars: vars, pc: "true", hyp: false}
	g.obs = append(g.obs, &Oblig{Name: "lemma " + fs.Key + "#cover.requires", Kind: "cover", PC: "true", Goal: "true", Clause: "the lemma's hypotheses are satisfiable", Fn: fs.Key, Script: g.s, Cover: true})
	for k, c := range fs.Ensures {
		goal := genv.tr(c.E, true)
		lbl := c.Label
		if lbl == "" {
			lbl = fmt.Sprint(k)
		}
		g.obs = append(g.obs, &Oblig{Name: fmt.Sprintf("lemma %s#ensures.%s", fs.Key, lbl), Kind: "lemma", PC: "true", Goal: goal.S, Clause: "ensures " + c.Text, Fn: fs.Key, Script: g.s, Props: c.Props})
	}
}

// ---------- loops ----------

func (f *frame) invEnv(st *State, pc string, hyp bool, li *loopInfo) *Env {
	g := f.g
	vars := map[string]CV{}
	for k, v := range g.paramVals {
		vars[k] = v
	}
	for k, v := range g.ghostVals {
		vars[k] = v
	}
	// a parameter the body re-assigns denotes its current value (its naive-form cell)
	for _, p := range f.fn.Params {
		if c := f.cells[p.Name()]; c != nil && f.paramCellMutable(p, c) {
			// ... and its entry value is available as <name>0
			if v, ok := vars[p.Name()]; ok {
				if _, clash := vars[p.Name()+"0"]; !clash && f.cells[p.Name()+"0"] == nil {
					vars[p.Name()+"0"] = v
				}
			}
			delete(vars, p.Name())
		}
	}
	e := &Env{g: g, st: st, old: g.entry, vars: vars, cells: f.cells, pc: pc, hyp: hyp, frame: f}
	if li != nil {
		// inside a loop's clauses "rangeindex" is that loop's own index variable
		if ri, _ := rangeLoopShape(li); ri != nil {
			cells := map[string]*ssa.Alloc{}
			for k, v := range f.cells {
				cells[k] = v
			}
			cells["rangeindex"] = ri
			e.cells = cells
		}
		for _, ins := range li.head.Instrs {
			if nx, ok := ins.(*ssa.Next); ok {
				if r, ok := nx.Iter.(*ssa.Range); ok {
					e.iterHeap = "iter." + f.prefix + r.Name()
				}
			}
		}
	}
	if li != nil && li.spec != nil {
		for _, u := range li.spec.Uses {
			// "use <int expr>" inside a loop block: an instantiation term for quantified invariants
			if !isAxiomUse(g, u) {
				v := (&Env{g: g, st: st, old: g.entry, vars: vars, cells: e.cells, pc: pc, hyp: hyp, frame: f}).tr(u, true)
				if v.So == "Int" && v.Ty != nil && isRefType(v.Ty) {
					// "use <object expr>": an object the universal facts about references are used at
					g.addInstTerm("Ref", v.S)
				} else {
					e.insts = append(e.insts, v.S)
					if v.So == "Int" {
						g.addInstTerm("Int", v.S)
					}
				}
			}
		}
	}
	return e
}

func clauseLabel(c *Clause, k int) string {
	if c.Label != "" {
		return c.Label
	}
	return fmt.Sprint(k)
}

func (f *frame) loopHeader(li *loopInfo, pc string, st *State) string {
	g := f.g
	if !f.top {
		fail("%s: loop inside a function that is executed in place (give %s a contract)", funcKey(g.fn), funcKey(f.fn))
	}
	key := funcKey(f.fn)
	if g.spec != nil {
		li.spec = g.spec.Loops[li.ord]
	}
	li.entry = st.clone()
	cells, heaps := f.loopMods(li)
	if li.spec != nil && li.spec.Var != "" {
		found := false
		for _, c := range cells {
			found = found || c.Comment == li.spec.Var
		}
		if !found {
			fail("contract %s: loop %d is declared over %q but that variable is not assigned in the loop", key, li.ord, li.spec.Var)
		}
	}
	// establish
	if li.spec != nil {
		// axiom / lemma instances named in the loop block, at the values on entry
		for _, u := range li.spec.Uses {
			if isAxiomUse(g, u) {
				g.useAxiom(f.invEnv(st, pc, true, li), u)
			}
		}
		env := f.invEnv(st, pc, false, li)
		for k, c := range li.spec.Invs {
			if !g.wantClause(c) {
				continue
			}
			goal := env.tr(c.E, true)
			env.want(goal, "Bool", c.E)
			f.oblig("inv.establish", fmt.Sprintf("%s#loop%d.inv.%s.establish", key, li.ord, clauseLabel(c, k)), pc, goal.S, "invariant "+c.Text, li.head.Instrs[0].Pos(), c.Props)
		}
	}
	a0 := g.alloc(g.entry)
	noAuto := li.spec != nil && li.spec.NoAuto
	// automatic candidates (Houdini): each is established here, assumed at the head if not
	// dropped in an earlier round, and must be preserved on every back edge.
	var cands []loopCand
	addCand := func(id, what string, goal func(st *State) string) {
		if g.dropped[id] {
			return
		}
		cands = append(cands, loopCand{id: id, goal: goal})
		o := f.oblig("inv.establish", id+".establish", pc, goal(st), "auto: "+what, li.head.Instrs[0].Pos(), nil)
		o.Auto, o.AutoID = true, id
	}
	if !noAuto {
		for _, c := range cells {
			c := c
			v, live := st.cells[c]
			if !live {
				continue
			}
			if v.So == "Slc" {
				addCand(fmt.Sprintf("%s#loop%d.auto.fresh(%s)", key, li.ord, cellName(f, c)), c.Comment+" is backed by an array allocated in this call",
					func(s *State) string { v := s.cells[c]; return or("(snil "+v.S+")", "(> (ptr "+v.S+") "+a0+")") })
			}
		}
		// range loops: -1 <= rangeindex < N by construction
		if ri, n := rangeLoopShape(li); ri != nil {
			if nv, ok := f.vals[n]; ok {
				if _, live := st.cells[ri]; live {
					addCand(fmt.Sprintf("%s#loop%d.auto.range(%s)", key, li.ord, cellName(f, ri)), "range index stays within -1 .. len-1",
						func(s *State) string { v := s.cells[ri]; return and("(<= (- 1) "+v.S+")", "(< "+v.S+" (ite (< "+nv.S+" 0) 0 "+nv.S+"))", ) })
				}
			}
		}
		for _, h := range heaps {
			if !strings.HasPrefix(g.heapSort(h), "(Array") || strings.HasPrefix(h, "iter.") {
				continue
			}
			id := fmt.Sprintf("%s#loop%d.auto.frame(%s)", key, li.ord, h)
			if _, prec := li.precise[h]; prec || g.dropped[id] {
				continue
			}
			cands = append(cands, loopCand{id: id, heap: h})
		}
	}
	// havoc
	for _, c := range cells {
		if _, live := st.cells[c]; !live {
			continue
		}
		et := c.Type().Underlying().(*types.Pointer).Elem()
		st.cells[c] = g.s.decl("hv."+c.Comment, g.sortOf(et))
	}
	allocMod := false
	for _, h := range heaps {
		if h == "alloc" {
			allocMod = true
			continue
		}
		hv := g.hv(st, h)
		if refs, ok := li.precise[h]; ok && strings.HasPrefix(hv.sort, "(Array") {
			// modified only at references that do not change in the loop: havoc just those
			cur := hv.term
			el := splitSort(hv.sort)[2]
			for _, r := range refs {
				cur = "(store " + cur + " " + r + " " + g.s.decl("hv."+h, el).S + ")"
			}
			d := g.s.def("hv."+h, T{cur, hv.sort})
			g.setHeap(st, h, g.newHV(h, hv.sort, d.S, hvStore, hv))
			continue
		}
		nv := g.newHV(h, hv.sort, g.s.decl("hv."+h, hv.sort).S, hvHavoc)
		for _, cd := range cands {
			if cd.heap == h {
				nv.kind = hvFrame
				nv.parents = []*HV{g.hv(li.entry, h)}
				nv.frontier = a0
				nv.guard = pc
			}
		}
		g.setHeap(st, h, nv)
	}
	if allocMod {
		f.bumpAlloc(st, pc)
	}
	for _, c := range cells {
		if v, live := st.cells[c]; live {
			g.s.assumeUnder(pc, g.typeInv(st, v, c.Type().Underlying().(*types.Pointer).Elem()))
		}
	}
	var hyps []string
	for _, cd := range cands {
		if cd.goal != nil {
			hyps = append(hyps, cd.goal(st))
		}
	}
	li.cands = cands
	if li.spec != nil {
		env := f.invEnv(st, pc, true, li)
		for _, c := range li.spec.Invs {
			if !g.wantClause(c) {
				continue
			}
			h := env.tr(c.E, true)
			hyps = append(hyps, h.S)
		}
		if li.spec.Decr != nil {
			li.measure = f.invEnv(st, pc, true, li).tr(li.spec.Decr.E, true).S
		}
	}
	npc := g.s.def("pc.loop", T{and(append([]string{pc}, hyps...)...), "Bool"}).S
	if li.spec != nil {
		// ... and at the values of an arbitrary iteration
		for _, u := range li.spec.Uses {
			if isAxiomUse(g, u) {
				g.useAxiom(f.invEnv(st, npc, true, li), u)
			}
		}
	}
	g.obs = append(g.obs, &Oblig{Name: fmt.Sprintf("%s#loop%d.cover", key, li.ord), Kind: "cover", PC: npc, Goal: "true", Clause: "the loop invariant is satisfiable at the loop head", Fn: key, Script: g.s, Cover: true})
	return npc
}

type loopCand struct {
	id   string
	goal func(st *State) string
	heap string
}

// rangeLoopShape recognises the head of a "for range slice" loop as go/ssa builds it:
// rangeindex++ ; if rangeindex < N. It returns the index cell and N.
func rangeLoopShape(li *loopInfo) (*ssa.Alloc, ssa.Value) {
	var cell *ssa.Alloc
	for _, ins := range li.head.Instrs {
		switch i := ins.(type) {
		case *ssa.Store:
			if a, ok := i.Addr.(*ssa.Alloc); ok && a.Comment == "rangeindex" {
				cell = a
			}
		case *ssa.BinOp:
			if i.Op.String() == "<" && cell != nil {
				if blk := valueBlock(i.Y); blk == nil || !li.body[blk] {
					return cell, i.Y
				}
			}
		}
	}
	return nil, nil
}

func valueBlock(v ssa.Value) *ssa.BasicBlock {
	if ins, ok := v.(ssa.Instruction); ok {
		return ins.Block()
	}
	return nil
}

func cellName(f *frame, c *ssa.Alloc) string {
	for n, a := range f.cells {
		if a == c {
			return n
		}
	}
	return c.Comment
}

func (f *frame) backEdge(from, to *ssa.BasicBlock, pc string, st *State) {
	g := f.g
	li := f.loops[to]
	key := funcKey(f.fn)
	n := li.nback
	li.nback++
	if li.spec != nil {
		for k, gs := range li.spec.AtEnd {
			pc = f.ghostStmt(gs, f.invEnv(st, pc, false, li), st, pc, fmt.Sprintf("%s#loop%d.atend.%s.%d", key, li.ord, ghostLabel(gs, k), n), from.Instrs[len(from.Instrs)-1].Pos())
		}
		// axiom / lemma instances named in the loop block, at the values after the body
		for _, u := range li.spec.Uses {
			if isAxiomUse(g, u) {
				g.useAxiom(f.invEnv(st, pc, true, li), u)
			}
		}
		env := f.invEnv(st, pc, false, li)
		for k, c := range li.spec.Invs {
			if !g.wantClause(c) {
				continue
			}
			goal := env.tr(c.E, true)
			env.want(goal, "Bool", c.E)
			f.oblig("inv.preserve", fmt.Sprintf("%s#loop%d.inv.%s.preserve.%d", key, li.ord, clauseLabel(c, k), n), pc, goal.S, "invariant "+c.Text, from.Instrs[len(from.Instrs)-1].Pos(), c.Props)
		}
		if li.spec.Decr != nil {
			m1 := f.invEnv(st, pc, false, li).tr(li.spec.Decr.E, true).S
			f.oblig("decreases", fmt.Sprintf("%s#loop%d.decreases.%d", key, li.ord, n), pc, and("(>= "+li.measure+" 0)", "(< "+m1+" "+li.measure+")"), "decreases "+li.spec.Decr.Text, from.Instrs[len(from.Instrs)-1].Pos(), nil)
		}
	}
	a0 := g.alloc(g.entry)
	for _, cd := range li.cands {
		var goal string
		if cd.goal != nil {
			goal = cd.goal(st)
		} else {
			h0 := g.hv(li.entry, cd.heap)
			goal = imp(and("(<= RK "+a0+")", "(> RK 0)"), eq(g.readHeap(st, cd.heap, "RK"), app("select", h0.term, "RK")))
		}
		o := f.oblig("inv.preserve", fmt.Sprintf("%s.preserve.%d", cd.id, n), pc, goal, "auto candidate", from.Instrs[len(from.Instrs)-1].Pos(), nil)
		o.Auto, o.AutoID = true, cd.id
	}
}

// loopMods: the cells and heaps a loop body may modify (syntactic over-approximation).
func (f *frame) loopMods(li *loopInfo) ([]*ssa.Alloc, []string) {
	g := f.g
	cellSet := map[*ssa.Alloc]bool{}
	heapSet := map[string]bool{}
	all := false
	// precision: a heap all of whose modifications in the loop are at references that do
	// not change in the loop is havocked only at those references
	li.precise = map[string][]string{}
	imprecise := map[string]bool{}
	phase := 0
	phase0Heaps := map[string]bool{}
	mark := func(h string) {
		heapSet[h] = true
		imprecise[h] = true
	}
	markAt := func(h, ref string) {
		heapSet[h] = true
		if phase == 0 || ref == "" || strings.Contains(ref, "?unk") {
			imprecise[h] = true
			return
		}
		for _, r := range li.precise[h] {
			if r == ref {
				return
			}
		}
		li.precise[h] = append(li.precise[h], ref)
	}
	// invVal: the value of v if it cannot change during the loop
	var invVal func(v ssa.Value, depth int) string
	invVal = func(v ssa.Value, depth int) string {
		if depth > 0 {
			return "?unk"
		}
		switch x := v.(type) {
		case *ssa.Const, *ssa.Parameter:
			if _, isP := x.(*ssa.Parameter); isP {
				if t, ok := f.vals[v]; ok {
					return t.S
				}
				return "?unk"
			}
			return f.val(v).S
		case *ssa.UnOp:
			if a, ok := x.X.(*ssa.Alloc); ok && !a.Heap && x.Op.String() == "*" && !cellSet[a] {
				if st := li.entry; st != nil {
					if t, live := st.cells[a]; live {
						return t.S
					}
				}
			}
			// a captured (boxed) local whose box heap the loop does not write
			if a, ok := x.X.(*ssa.Alloc); ok && a.Heap && x.Op.String() == "*" && phase == 1 && a.Parent() == f.fn && !li.body[a.Block()] {
				if _, isStruct := a.Type().Underlying().(*types.Pointer).Elem().Underlying().(*types.Struct); !isStruct {
					h := g.boxHeapOf(a.Type().Underlying().(*types.Pointer).Elem())
					if ref, ok := f.vals[a]; ok && !phase0Heaps[h] && li.entry != nil {
						return "(select " + g.hv(li.entry, h).term + " " + ref.S + ")"
					}
				}
			}
			// a field of an unchanging object, the field heap not being written in the loop
			if fa, ok := x.X.(*ssa.FieldAddr); ok && x.Op.String() == "*" && phase == 1 {
				if pt, ok := fa.X.Type().Underlying().(*types.Pointer); ok {
					if _, isStruct := pt.Elem().Underlying().(*types.Struct); isStruct {
						if _, located := fa.X.(*ssa.Alloc); !located {
							base := invVal(fa.X, depth)
							h, _ := g.fieldHeapOf(pt.Elem(), fa.Field)
							if base != "?unk" && !phase0Heaps[h] && li.entry != nil {
								return "(select " + g.hv(li.entry, h).term + " " + base + ")"
							}
						}
					}
				}
			}
		}
		if ins, ok := v.(ssa.Instruction); ok && ins.Block() != nil && !li.body[ins.Block()] && ins.Parent() == f.fn {
			if t, ok := f.vals[v]; ok {
				return t.S
			}
		}
		return "?unk"
	}
	var scan func(fn *ssa.Function, blocks []*ssa.BasicBlock, bind map[*ssa.FreeVar]ssa.Value, depth int)
	var baseOf func(v ssa.Value, bind map[*ssa.FreeVar]ssa.Value)
	baseOf = func(v ssa.Value, bind map[*ssa.FreeVar]ssa.Value) {
		switch x := v.(type) {
		case *ssa.Alloc:
			et := x.Type().Underlying().(*types.Pointer).Elem()
			if !x.Heap {
				cellSet[x] = true
				return
			}
			switch u := et.Underlying().(type) {
			case *types.Struct:
				for k := 0; k < u.NumFields(); k++ {
					h, _ := g.fieldHeapOf(et, k)
					mark(h)
				}
			case *types.Array:
				mark(g.elemHeapOf(u.Elem()))
			default:
				mark(g.boxHeapOf(et))
			}
		case *ssa.IndexAddr:
			switch xt := x.X.Type().Underlying().(type) {
			case *types.Slice:
				mark(g.elemHeapOf(xt.Elem()))
			case *types.Pointer:
				mark(g.elemHeapOf(xt.Elem().Underlying().(*types.Array).Elem()))
			}
		case *ssa.FieldAddr:
			switch b := x.X.(type) {
			case *ssa.Alloc:
				if !b.Heap {
					cellSet[b] = true
					return
				}
				if _, isStruct := b.Type().Underlying().(*types.Pointer).Elem().Underlying().(*types.Struct); !isStruct {
					baseOf(b, bind)
					return
				}
			case *ssa.IndexAddr:
				baseOf(b, bind)
				return
			case *ssa.FieldAddr:
				// nested struct value inside a located struct?
				if _, viaPtr := b.X.Type().Underlying().(*types.Pointer).Elem().Underlying().(*types.Struct).Field(b.Field).Type().Underlying().(*types.Struct); viaPtr {
					baseOf(b, bind)
					return
				}
			}
			pt := x.X.Type().Underlying().(*types.Pointer)
			h, _ := g.fieldHeapOf(pt.Elem(), x.Field)
			mark(h)
		case *ssa.Global:
			t := x.Type().Underlying().(*types.Pointer).Elem()
			g.declHeap("G."+x.Name(), g.sortOf(t))
			mark("G."+x.Name())
		case *ssa.FreeVar:
			if b, ok := bind[x]; ok {
				baseOf(b, nil)
				return
			}
			mark(g.boxHeapOf(x.Type().Underlying().(*types.Pointer).Elem()))
		default:
			if pt, ok := v.Type().Underlying().(*types.Pointer); ok {
				if st, ok := pt.Elem().Underlying().(*types.Struct); ok {
					for k := 0; k < st.NumFields(); k++ {
						h, _ := g.fieldHeapOf(pt.Elem(), k)
						mark(h)
					}
					return
				}
				mark(g.boxHeapOf(pt.Elem()))
			}
		}
	}
	contractMods := func(fs *FuncSpec, tys []types.Type, actuals []string) {
		_, _, asg, _, _ := g.clauses(fs)
		vars := map[string]CV{}
		for k, p := range fs.Params {
			if k < len(tys) {
				v := "?unk"
				if k < len(actuals) {
					v = actuals[k]
				}
				vars[p.Name] = CV{T{v, g.sortOf(tys[k])}, tys[k]}
			}
		}
		st := g.entry
		if li.entry != nil {
			st = li.entry
		}
		g.s.noDef++
		env := &Env{g: g, st: st, old: g.entry, vars: vars, pc: "false", hyp: true}
		for _, a := range asg {
			l := env.locOf(a)
			if l.skip {
				continue // a location reached through a nil actual: the callee assigns nothing there
			}
			ref := l.ref
			if l.all || !strings.HasPrefix(g.heapSort(l.heap), "(Array") {
				ref = ""
			}
			markAt(l.heap, ref)
			if strings.HasPrefix(l.heap, "Mh.") {
				markAt("Mv."+strings.TrimPrefix(l.heap, "Mh."), ref)
			}
		}
		g.s.noDef--
		mark("alloc")
	}
	// preciseStore: a store through p.f or s[i] whose object does not change in the loop
	preciseStore := func(addr ssa.Value, depth int) (string, string, bool) {
		switch x := addr.(type) {
		case *ssa.FieldAddr:
			switch b := x.X.(type) {
			case *ssa.Alloc, *ssa.FieldAddr:
				return "", "", false
			case *ssa.IndexAddr:
				if sl, ok := b.X.Type().Underlying().(*types.Slice); ok {
					return g.elemHeapOf(sl.Elem()), "(ptr " + invVal(b.X, depth) + ")", true
				}
				return "", "", false
			}
			pt := x.X.Type().Underlying().(*types.Pointer)
			if _, ok := pt.Elem().Underlying().(*types.Struct); ok {
				h, _ := g.fieldHeapOf(pt.Elem(), x.Field)
				return h, invVal(x.X, depth), true
			}
		case *ssa.IndexAddr:
			if sl, ok := x.X.Type().Underlying().(*types.Slice); ok && !isByteSlice(x.X.Type()) {
				return g.elemHeapOf(sl.Elem()), "(ptr " + invVal(x.X, depth) + ")", true
			}
		}
		return "", "", false
	}
	scan = func(fn *ssa.Function, blocks []*ssa.BasicBlock, bind map[*ssa.FreeVar]ssa.Value, depth int) {
		for _, b := range blocks {
			for _, ins := range b.Instrs {
				switch i := ins.(type) {
				case *ssa.Store:
					if h, ref, ok := preciseStore(i.Addr, depth); ok {
						markAt(h, ref)
					} else {
						baseOf(i.Addr, bind)
					}
				case *ssa.MapUpdate:
					mt := i.Map.Type().Underlying().(*types.Map)
					markAt(g.mapHasHeap(mt), invVal(i.Map, depth))
					markAt(g.mapValHeap(mt), invVal(i.Map, depth))
				case *ssa.Alloc:
					if i.Heap {
						mark("alloc")
						baseOf(i, bind)
					} else if depth == 0 {
						// a variable declared inside the loop body is re-initialised there
					}
				case *ssa.MakeSlice:
					mark("alloc")
					mark(g.elemHeapOf(i.Type().Underlying().(*types.Slice).Elem()))
				case *ssa.MakeMap:
					mark("alloc")
					mark(g.mapHasHeap(i.Type().Underlying().(*types.Map)))
				case *ssa.MakeClosure:
					mark("alloc")
				case *ssa.Range:
					if _, ok := i.X.Type().Underlying().(*types.Map); ok {
						h := "iter." + f.prefix + i.Name()
						g.declHeap(h, "(Array "+g.mapKeySort(i.X.Type().Underlying().(*types.Map))+" Bool)")
						mark(h)
					}
				case *ssa.Next:
					if r, ok := i.Iter.(*ssa.Range); ok {
						if mt, ok := r.X.Type().Underlying().(*types.Map); ok {
							h := "iter." + f.prefix + r.Name()
							g.declHeap(h, "(Array "+g.mapKeySort(mt)+" Bool)")
							mark(h)
						}
					}
				case *ssa.Call:
					com := i.Call
					if bi, ok := com.Value.(*ssa.Builtin); ok {
						switch bi.Name() {
						case "append":
							if sl, ok := com.Args[0].Type().Underlying().(*types.Slice); ok && !isByteSlice(com.Args[0].Type()) {
								mark(g.elemHeapOf(sl.Elem()))
								mark("alloc")
							}
						case "copy":
							if sl, ok := com.Args[0].Type().Underlying().(*types.Slice); ok && !isByteSlice(com.Args[0].Type()) {
								mark(g.elemHeapOf(sl.Elem()))
							}
						case "delete", "clear":
							if mt, ok := com.Args[0].Type().Underlying().(*types.Map); ok {
								mark(g.mapHasHeap(mt))
							}
						}
						continue
					}
					if com.IsInvoke() {
						key := ifaceName(com.Value.Type()) + "." + com.Method.Name()
						if fs := g.Specs.Funcs[key]; fs != nil {
							sig := com.Method.Type().(*types.Signature)
							tys := []types.Type{com.Value.Type()}
							for k := 0; k < sig.Params().Len(); k++ {
								tys = append(tys, sig.Params().At(k).Type())
							}
							acts := []string{invVal(com.Value, depth)}
							for _, a := range com.Args {
								acts = append(acts, invVal(a, depth))
							}
							contractMods(fs, tys, acts)
						} else {
							mark("alloc")
						}
						continue
					}
					callee := com.StaticCallee()
					if callee == nil {
						if nt, ok := com.Value.Type().(*types.Named); ok {
							if fs := g.Specs.Funcs[nt.Obj().Name()]; fs != nil && fs.Kind == "functype" {
								sig := nt.Underlying().(*types.Signature)
								tys := []types.Type{nt}
								for k := 0; k < sig.Params().Len(); k++ {
									tys = append(tys, sig.Params().At(k).Type())
								}
								acts := []string{invVal(com.Value, depth)}
								for _, a := range com.Args {
									acts = append(acts, invVal(a, depth))
								}
								contractMods(fs, tys, acts)
								continue
							}
						}
						all = true
						continue
					}
					if mc, ok := com.Value.(*ssa.MakeClosure); ok {
						cf := mc.Fn.(*ssa.Function)
						nb := map[*ssa.FreeVar]ssa.Value{}
						for k, fv := range cf.FreeVars {
							nb[fv] = mc.Bindings[k]
						}
						scan(cf, cf.Blocks, nb, depth+1)
						continue
					}
					if callee.Pkg != g.P.SPkg {
						mark("alloc")
						if !externalIsPure(callee.String()) {
							for _, a := range com.Args {
								if mi, ok := a.(*ssa.MakeInterface); ok {
									a = mi.X
								}
								switch t := a.Type().Underlying().(type) {
								case *types.Slice:
									if !isByteSlice(a.Type()) {
										mark(g.elemHeapOf(t.Elem()))
									}
								case *types.Pointer:
									baseOf(a, bind)
								}
							}
						}
						if callee.String() == "sort.Strings" {
							mark("E.NB")
							g.elemHeapOf(types.Typ[types.String])
						}
						continue
					}
					fs := g.Specs.Funcs[funcKey(callee)]
					switch {
					case fs != nil && (fs.Pure || fs.Inline):
						if depth < 6 {
							scan(callee, callee.Blocks, nil, depth+1)
						} else {
							all = true
						}
					case fs != nil:
						var acts []string
						for _, a := range com.Args {
							acts = append(acts, invVal(a, depth))
						}
						contractMods(fs, paramTypes(callee), acts)
					default:
						if g.canAutoInline(callee) && depth < 4 {
							scan(callee, callee.Blocks, nil, depth+1)
						} else {
							all = true
						}
					}
				}
			}
		}
	}
	var blocks []*ssa.BasicBlock
	for b := range li.body {
		blocks = append(blocks, b)
	}
	sort.Slice(blocks, func(i, j int) bool { return blocks[i].Index < blocks[j].Index })
	scan(f.fn, blocks, nil, 0)
	// second phase: with the set of modified cells known, attribute precise references
	phase = 1
	savedHeaps := heapSet
	phase0Heaps = savedHeaps
	heapSet = map[string]bool{}
	imprecise = map[string]bool{}
	li.precise = map[string][]string{}
	scan(f.fn, blocks, nil, 0)
	for h := range savedHeaps {
		if !heapSet[h] {
			heapSet[h] = true
			imprecise[h] = true
		}
	}
	if li.spec != nil {
		for _, gs := range li.spec.AtEnd {
			if gs.Kind != "set" {
				continue
			}
			h := ""
			if gs.LHS.Op == "call" && gs.LHS.Args[0].Op == "ident" {
				if _, ok := g.Specs.GhostFld[gs.LHS.Args[0].Name]; ok {
					h = "GH." + gs.LHS.Args[0].Name
				}
			} else if gs.LHS.Op == "ident" {
				if _, ok := g.Specs.GhostVar[gs.LHS.Name]; ok {
					h = "ghost." + gs.LHS.Name
				}
			}
			if h == "" {
				fail("%s: ghost update of an unsupported location %s", f.fn.Name(), gs.LHS)
			}
			g.ghostHeapDecl(h)
			heapSet[h] = true
			imprecise[h] = true
		}
	}
	for h := range imprecise {
		delete(li.precise, h)
	}
	if all {
		li.precise = map[string][]string{}
		for _, n := range sortedKeys(g.heapSo) {
			mark(n)
		}
	}
	var cells []*ssa.Alloc
	for c := range cellSet {
		if c.Parent() == f.fn {
			cells = append(cells, c)
		}
	}
	sort.Slice(cells, func(i, j int) bool { return cells[i].Pos() < cells[j].Pos() || cells[i].Pos() == cells[j].Pos() && cells[i].Name() < cells[j].Name() })
	return cells, sortedKeys(heapSet)
}

func (g *Gen) ghostHeapDecl(h string) {
	if strings.HasPrefix(h, "GH.") {
		gf := g.Specs.GhostFld[strings.TrimPrefix(h, "GH.")]
		g.declHeap(h, "(Array Int "+gf[1]+")")
		return
	}
	_, so := g.resolveType(g.Specs.GhostVar[strings.TrimPrefix(h, "ghost.")])
	g.declHeap(h, so)
}

func (f *frame) paramCellMutable(p *ssa.Parameter, c *ssa.Alloc) bool {
	fromParam, stores := false, 0
	for _, r := range *c.Referrers() {
		if st, ok := r.(*ssa.Store); ok && st.Addr == c {
			stores++
			if st.Val == p {
				fromParam = true
			}
		}
	}
	return fromParam && stores > 1
}

// isAxiomUse: "use name(args)" / "use forall ... :: name(args)" with name an axiom or lemma (anything
// else after "use" in a loop block is an instantiation term).
func isAxiomUse(g *Gen, u *CE) bool {
	if u.Op == "forall" {
		return true
	}
	if u.Op == "call" && u.Args[0].Op == "ident" {
		n := u.Args[0].Name
		return g.Specs.Axioms[n] != nil || g.Specs.Lemmas[n] != nil
	}
	return false
}
