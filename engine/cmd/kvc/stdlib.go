package main

import (
	"fmt"
	"go/constant"
	"go/types"
	"strings"

	"golang.org/x/tools/go/ssa"
)

// Axiomatic models of the standard-library leaves kvql calls (trusted: T-STD).
// Everything not listed is treated as a side-effect-free function with
// unconstrained results and is recorded among the havocked callees.
const preludeStd = `(declare-fun lower (B) B)
(declare-fun upper (B) B)
(declare-fun trim (B) B)
(declare-fun repeat (B Int) B)
(declare-fun joinN ((Array Int NB) Int Int B) B)
(assert (forall ((a (Array Int NB)) (o Int) (n Int) (k B) (j Int) (v NB)) (! (=> (or (< j o) (>= j (+ o n))) (= (joinN (store a j v) o n k) (joinN a o n k))) :pattern ((joinN (store a j v) o n k)))))
(declare-fun splitS (Int) B)
(declare-fun splitSep (Int) B)
(declare-fun splitN (Int) Int)
(declare-fun utdiv (Int Int) Int)
(declare-fun utmod (Int Int) Int)
(declare-fun imul (Int Int) Int)
(assert (forall ((a Int) (b Int)) (! (= (imul a b) (imul b a)) :pattern ((imul a b)))))
(assert (forall ((a Int)) (! (and (= (imul a 0) 0) (= (imul a 1) a)) :pattern ((imul a 0)) :pattern ((imul a 1)))))
(declare-fun be32 (Int) B)
(assert (forall ((n Int)) (! (= (blen (be32 n)) 4) :pattern ((be32 n)))))
(assert (forall ((n Int) (m Int)) (! (=> (and (<= 0 n) (< n 4294967296) (<= 0 m) (< m 4294967296) (= (be32 n) (be32 m))) (= n m)) :pattern ((be32 n) (be32 m)))))
(declare-fun lead (B) Int)
(declare-fun trail (B) Int)
(assert (forall ((x B)) (! (and (<= 0 (lead x)) (<= 0 (trail x)) (<= (+ (lead x) (trail x)) (blen x)) (= (trim x) (sub x (lead x) (- (blen x) (trail x))))) :pattern ((trim x)))))
(assert (forall ((x B)) (! (and (<= 0 (lead x)) (<= (lead x) (blen x))) :pattern ((lead x)))))
(declare-fun itoa (Int) B)
(declare-fun ftoa (F64) B)
(assert (forall ((x F64) (y F64)) (! (=> (= (ftoa x) (ftoa y)) (= x y)) :pattern ((ftoa x) (ftoa y)))))
(declare-fun parseInt (B) Int)
(declare-fun parseIntOk (B) Bool)
(declare-fun parseFloat (B) F64)
(declare-fun parseFloatOk (B) Bool)
(declare-fun fsqrt (F64) F64)
(declare-fun fabs (F64) F64)
(declare-fun fpow (F64 F64) F64)
(declare-fun reMatch (B B) Bool)
(declare-fun reOk (B) Bool)
(declare-fun repat (Int) B)
(assert (forall ((x B)) (! (= (lower (lower x)) (lower x)) :pattern ((lower (lower x))))))
(assert (forall ((x B)) (! (= (blen (lower x)) (blen x)) :pattern ((lower x)))))
(assert (forall ((x B)) (! (= (blen (upper x)) (blen x)) :pattern ((upper x)))))
(assert (forall ((i Int)) (! (and (parseIntOk (itoa i)) (= (parseInt (itoa i)) i)) :pattern ((itoa i)))))
`

var stdlibNames = map[string]bool{}

func (f *frame) freshErr(st *State, pc string, nonnil bool) T {
	g := f.g
	e := g.s.decl("err", "Int")
	if nonnil {
		g.s.assume("(> " + e.S + " 0)")
	} else {
		g.s.assume("(>= " + e.S + " 0)")
	}
	return e
}

func (f *frame) stdlib(i *ssa.Call, full string, args []T, st *State, pc string) ([]T, string, bool) {
	g := f.g
	b := func(t string) []T { return []T{g.s.def(i.Name(), T{t, "Bool"})} }
	nb := func(t string) []T { return []T{g.s.def(i.Name(), T{"(mk false " + t + ")", "NB"})} }
	v := func(k int) string { return "(val " + args[k].S + ")" }
	g.trustedUse["stdlib:"+full] = true
	if strings.HasPrefix(full, "slices.Compact[[]string") {
		// T-STD: slices.Compact keeps the first of every run of equal neighbours, in place; the
		// result is a prefix of the same backing array with the same set of values. Called on an
		// ascending slice (obligation) the result is strictly ascending.
		sl := args[0]
		h := g.elemHeapOf(types.Typ[types.String])
		oldArr := g.s.def("cmp.old", T{g.readHeap(st, h, "(ptr "+sl.S+")"), "(Array Int NB)"}).S
		o, n := "(off "+sl.S+")", "(len_ "+sl.S+")"
		g.s.declNamed("QK.Int.0", "Int")
		f.oblig("requires", fmt.Sprintf("%s#pre(slices.Compact).sorted.%d", funcKey(f.fn), f.npanic["compact"]), pc,
			imp(and("(<= "+o+" QK.Int.0)", "(< (+ QK.Int.0 1) (+ "+o+" "+n+"))"), "(le (val (select "+oldArr+" QK.Int.0)) (val (select "+oldArr+" (+ QK.Int.0 1))))"),
			"slices.Compact is given an ascending slice (so that its result is strictly ascending)", i.Pos(), nil)
		f.npanic["compact"]++
		na := g.s.decl("cmp.new", "(Array Int NB)")
		nn := g.s.decl("cmp.len", "Int")
		g.s.assumeUnder(pc, and("(<= 0 "+nn.S+")", "(<= "+nn.S+" "+n+")", imp("(> "+n+" 0)", "(> "+nn.S+" 0)")))
		perm := &forallFact{sort: "B", guard: pc, outer: "true", inst: func(t string) string {
			return eq(app("mem", na.S, o, nn.S, t), app("mem", oldArr, o, n, t))
		}}
		g.foralls = append(g.foralls, perm)
		for _, t := range append([]string{}, g.instTerms["B"]...) {
			g.instOne(perm, t)
		}
		strict := &forallFact{sort: "Int", guard: pc, outer: "true", inst: func(t string) string {
			return and(imp(and("(<= "+o+" "+t+")", "(< (+ "+t+" 1) (+ "+o+" "+nn.S+"))"), and("(le (val (select "+na.S+" "+t+")) (val (select "+na.S+" (+ "+t+" 1))))", not(eq("(val (select "+na.S+" "+t+"))", "(val (select "+na.S+" (+ "+t+" 1)))")))),
				imp(and("(<= "+o+" "+t+")", "(< "+t+" (+ "+o+" "+nn.S+"))"), "(not (isnil (select "+na.S+" "+t+")))"))
		}}
		g.foralls = append(g.foralls, strict)
		for _, t := range append([]string{}, g.instTerms["Int"]...) {
			g.instOne(strict, t)
		}
		g.writeHeap(st, h, "(ptr "+sl.S+")", na.S)
		return []T{g.s.def(i.Name(), T{"(slc (ptr " + sl.S + ") (off " + sl.S + ") " + nn.S + " (snil " + sl.S + "))", "Slc"})}, pc, true
	}
	if full == "(encoding/binary.bigEndian).AppendUint32" {
		// T-STD: appends the 4-byte big-endian rendering be32(n) of n
		return nb("(cat (val " + args[1].S + ") (be32 " + args[2].S + "))"), pc, true
	}
	switch full {
	case "bytes.Compare", "strings.Compare":
		return []T{g.s.def(i.Name(), T{"(cmp " + v(0) + " " + v(1) + ")", "Int"})}, pc, true
	case "bytes.Equal":
		return b(eq(v(0), v(1))), pc, true
	case "bytes.HasPrefix", "strings.HasPrefix":
		return b("(pre " + v(1) + " " + v(0) + ")"), pc, true
	case "strings.ToLower":
		return nb("(lower " + v(0) + ")"), pc, true
	case "strings.ToUpper":
		return nb("(upper " + v(0) + ")"), pc, true
	case "strings.Repeat":
		// panics on a negative count; the result has count * len(s) bytes, blanks for s == " "
		f.panicOb("stdlib", pc, "(>= "+args[1].S+" 0)", i.Pos(), "strings.Repeat: negative count")
		r := g.s.def(i.Name(), T{"(repeat " + v(0) + " " + args[1].S + ")", "B"})
		g.s.assumeUnder(pc, eq("(blen "+r.S+")", "(* (blen "+v(0)+") "+args[1].S+")"))
		g.s.assumeUnder(pc, imp(eq(v(0), "(chr 32)"), eq(r.S, "(spaces "+args[1].S+")")))
		return []T{{"(mk false " + r.S + ")", "NB"}}, pc, true
	case "strings.Join":
		// T-STD: the elements joined by the separator (joinN, defined by unfolding)
		sl := args[0]
		h := g.elemHeapOf(types.Typ[types.String])
		arr := g.s.def("arr", T{g.readHeap(st, h, "(ptr "+sl.S+")"), "(Array Int NB)"}).S
		o, n := "(off "+sl.S+")", "(len_ "+sl.S+")"
		g.joinUnfold(arr, o, n, v(1))
		return nb(app("joinN", arr, o, n, v(1))), pc, true
	case "strings.Split":
		// T-STD: a fresh []string that is a function of the text and the separator only; splitS /
		// splitSep name the two arguments a split list was produced from (its elements are not
		// modelled beyond their number being at least 1 for a non-empty separator)
		p := g.fresh(st)
		ln := g.s.decl("split.len", "Int")
		g.s.assumeUnder(pc, "(>= "+ln.S+" 0)")
		h := g.elemHeapOf(types.Typ[types.String])
		g.writeHeap(st, h, p, g.s.decl("split.arr", "(Array Int NB)").S)
		g.s.assumeUnder(pc, and(eq("(splitS "+p+")", v(0)), eq("(splitSep "+p+")", v(1)), eq("(splitN "+p+")", ln.S)))
		return []T{g.s.def(i.Name(), T{"(slc " + p + " 0 " + ln.S + " false)", "Slc"})}, pc, true
	case "strings.TrimSpace":
		// T-STD: removes lead(s) bytes of leading and trail(s) bytes of trailing white space
		return nb("(trim " + v(0) + ")"), pc, true
	case "strings.TrimLeftFunc":
		// only with unicode.IsSpace: removes the same leading white space TrimSpace removes
		if fn, ok := i.Call.Args[1].(*ssa.Function); ok && fn.String() == "unicode.IsSpace" {
			return nb("(sub " + v(0) + " (lead " + v(0) + ") (blen " + v(0) + "))"), pc, true
		}
	case "bytes.ToLower":
		return nb("(lower " + v(0) + ")"), pc, true
	case "bytes.ToUpper":
		return nb("(upper " + v(0) + ")"), pc, true
	case "strconv.Itoa":
		return nb("(itoa " + args[0].S + ")"), pc, true
	case "strconv.FormatInt":
		if args[1].S == "10" {
			return nb("(itoa " + args[0].S + ")"), pc, true
		}
	case "strconv.ParseInt":
		if args[1].S == "10" && args[2].S == "64" {
			ok := "(parseIntOk " + v(0) + ")"
			e := g.s.decl("err", "Int")
			g.s.assume(and("(>= "+e.S+" 0)", eq(eq(e.S, "0"), ok)))
			return []T{g.s.def(i.Name(), T{ite(ok, "(parseInt "+v(0)+")", "0"), "Int"}), e}, pc, true
		}
	case "regexp.Compile":
		// T-STD: compiling succeeds exactly for the patterns reOk holds of; the compiled object
		// remembers its pattern (repat) and matching is a function of pattern and text (reMatch)
		ok := "(reOk " + v(0) + ")"
		e := g.s.decl("err", "Int")
		g.s.assume(and("(>= "+e.S+" 0)", eq(eq(e.S, "0"), ok)))
		p := g.fresh(st)
		g.s.assumeUnder(pc, eq("(repat "+p+")", v(0)))
		return []T{g.s.def(i.Name(), T{ite(ok, p, "0"), "Int"}), e}, pc, true
	case "(*regexp.Regexp).Match":
		f.panicOb("nil", pc, not(eq(args[0].S, "0")), i.Pos(), "nil *regexp.Regexp")
		return []T{{"(reMatch (repat " + args[0].S + ") (val " + args[1].S + "))", "Bool"}}, pc, true
	case "strconv.ParseFloat":
		ok := "(parseFloatOk " + v(0) + ")"
		e := g.s.decl("err", "Int")
		g.s.assume(and("(>= "+e.S+" 0)", eq(eq(e.S, "0"), ok)))
		return []T{g.s.def(i.Name(), T{ite(ok, "(parseFloat "+v(0)+")", "fzero"), "F64"}), e}, pc, true
	case "math.Sqrt":
		return []T{{"(fsqrt " + args[0].S + ")", "F64"}}, pc, true
	case "math.Abs":
		return []T{{"(fabs " + args[0].S + ")", "F64"}}, pc, true
	case "math.Pow":
		return []T{{"(fpow " + args[0].S + " " + args[1].S + ")", "F64"}}, pc, true
	case "reflect.TypeOf":
		// the dynamic type of an interface value, as an identity: equal results <=> same dynamic type
		a := args[0]
		if a.So != "Any" {
			break
		}
		return []T{g.s.def(i.Name(), T{"(kindcode " + a.S + ")", "Int"})}, pc, true
	case "container/heap.Init":
		return nil, pc, true
	case "container/heap.Push":
		// T-STD: the element is added (the adapter's Push is called once); ghost size + 1
		g.declHeap("GH.hsize", "(Array Int Int)")
		h := heapRefOf(i.Call.Args[0], f)
		g.writeHeap(st, "GH.hsize", h, "(+ "+g.readHeap(st, "GH.hsize", h)+" 1)")
		return nil, pc, true
	case "container/heap.Pop":
		// T-STD: removes and returns a minimum (by the adapter's Less) of the elements pushed so far;
		// popping an empty heap panics
		g.declHeap("GH.hsize", "(Array Int Int)")
		h := heapRefOf(i.Call.Args[0], f)
		f.panicOb("heappop", pc, "(> "+g.readHeap(st, "GH.hsize", h)+" 0)", i.Pos(), "heap.Pop on an empty heap")
		g.writeHeap(st, "GH.hsize", h, "(- "+g.readHeap(st, "GH.hsize", h)+" 1)")
		r := g.s.decl("popped", "Int")
		et := types.NewPointer(g.P.Pkg.Types.Scope().Lookup("orderColumnsRow").Type())
		g.s.assumeUnder(pc, and("(> "+r.S+" 0)", "(<= "+r.S+" "+g.alloc(st)+")", eq("(dyn "+r.S+")", g.tag(et))))
		return []T{{"(ARef " + g.tag(et) + " " + r.S + ")", "Any"}}, pc, true
	case "sort.Strings":
		// sorts in place: the new content is an ascending permutation of the old one (T-STD)
		sl := args[0]
		h := g.elemHeapOf(types.Typ[types.String])
		oldArr := g.s.def("srt.old", T{g.readHeap(st, h, "(ptr "+sl.S+")"), "(Array Int NB)"}).S
		na := g.s.decl("srt.new", "(Array Int NB)")
		o, n := "(off "+sl.S+")", "(len_ "+sl.S+")"
		perm := &forallFact{sort: "B", guard: pc, outer: "true", inst: func(t string) string {
			return eq(app("mem", na.S, o, n, t), app("mem", oldArr, o, n, t))
		}}
		g.foralls = append(g.foralls, perm)
		for _, t := range append([]string{}, g.instTerms["B"]...) {
			g.instOne(perm, t)
		}
		asc := &forallFact{sort: "Int", guard: pc, outer: "true", inst: func(t string) string {
			return imp(and("(<= "+o+" "+t+")", "(< (+ "+t+" 1) (+ "+o+" "+n+"))"), "(le (val (select "+na.S+" "+t+")) (val (select "+na.S+" (+ "+t+" 1))))")
		}}
		g.foralls = append(g.foralls, asc)
		for _, t := range append([]string{}, g.instTerms["Int"]...) {
			g.instOne(asc, t)
		}
		nn := &forallFact{sort: "Int", guard: pc, outer: "true", inst: func(t string) string {
			return imp(and("(<= "+o+" "+t+")", "(< "+t+" (+ "+o+" "+n+"))"), "(not (isnil (select "+na.S+" "+t+")))")
		}}
		g.foralls = append(g.foralls, nn)
		g.writeHeap(st, h, "(ptr "+sl.S+")", na.S)
		return nil, pc, true
	case "fmt.Errorf", "errors.New":
		// the dynamic type is a standard-library type, none of the package's own (tags are positive)
		e := f.freshErr(st, pc, true)
		g.s.assume("(< (dyn " + e.S + ") 0)")
		return []T{e}, pc, true
	case "fmt.Println", "fmt.Printf", "fmt.Print":
		return []T{g.s.decl("n", "Int"), f.freshErr(st, pc, false)}, pc, true
	case "fmt.Sprintf":
		// a constant format applied to its arguments is a function of those arguments
		if c, ok := i.Call.Args[0].(*ssa.Const); ok && c.Value != nil {
			if sl, ok := i.Call.Args[1].(*ssa.Slice); ok {
				if pt, ok := sl.X.Type().Underlying().(*types.Pointer); ok {
					if arr, ok := pt.Elem().Underlying().(*types.Array); ok {
						n := int(arr.Len())
						h := g.elemHeapOf(arr.Elem())
						a := g.readHeap(st, h, f.val(sl.X).S)
						fn := fmt.Sprintf("sprintf.%s.%d", strings.TrimPrefix(g.s.lit(constant.StringVal(c.Value)), "lit"), n)
						var as, so []string
						for k := 0; k < n; k++ {
							as = append(as, fmt.Sprintf("(select %s %d)", a, k))
							so = append(so, "Any")
						}
						decl := fmt.Sprintf("(declare-fun %s (%s) B)", fn, strings.Join(so, " "))
						if !g.s.decls[decl] {
							g.s.decls[decl] = true
							g.s.lines = append(g.s.lines, decl)
						}
						r := g.s.def(i.Name(), T{"(mk false " + app(fn, as...) + ")", "NB"})
						if constant.StringVal(c.Value) == "%s-%s" && n == 2 {
							// two texts around a dash (T-STD): the cache-key format of plan.go
							tx := func(a string) string { return "(ite ((_ is AStr) " + a + ") (val (a.s " + a + ")) (val (a.y " + a + ")))" }
							isT := func(a string) string { return "(or ((_ is AStr) " + a + ") ((_ is ABytes) " + a + "))" }
							g.s.assumeUnder(pc, imp(and(isT(as[0]), isT(as[1])), eq("(val "+r.S+")", "(cat (cat "+tx(as[0])+" "+g.s.lit("-")+") "+tx(as[1])+")")))
						}
						if pieces, ok := sprintfTextPieces(constant.StringVal(c.Value), n); ok && constant.StringVal(c.Value) != "%s-%s" {
							// only %s verbs: the literal pieces of the format around the texts (T-STD)
							tx := func(a string) string { return "(ite ((_ is AStr) " + a + ") (val (a.s " + a + ")) (val (a.y " + a + ")))" }
							isT := func(a string) string { return "(or ((_ is AStr) " + a + ") ((_ is ABytes) " + a + "))" }
							var conds []string
							acc := ""
							add := func(t string) {
								if acc == "" {
									acc = t
								} else {
									acc = "(cat " + acc + " " + t + ")"
								}
							}
							for k := 0; k <= n; k++ {
								if pieces[k] != "" {
									add(g.s.lit(pieces[k]))
								}
								if k < n {
									add(tx(as[k]))
									conds = append(conds, isT(as[k]))
								}
							}
							if acc == "" {
								acc = g.s.lit("")
							}
							g.s.assumeUnder(pc, imp(and(conds...), eq("(val "+r.S+")", acc)))
						}
						if constant.StringVal(c.Value) == "%v" && n == 1 {
							// %v of a float is its shortest round-tripping rendering ftoa (T-STD; ftoa is injective)
							g.s.assumeUnder(pc, imp("((_ is AFlt) "+as[0]+")", eq("(val "+r.S+")", "(ftoa (a.f "+as[0]+"))")))
						}
						if constant.StringVal(c.Value) == "%d" && n == 1 {
							// %d of an integer value is its decimal rendering (T-STD)
							g.s.assumeUnder(pc, imp("((_ is AInt) "+as[0]+")", eq("(val "+r.S+")", "(itoa (a.i "+as[0]+"))")))
						}
						return []T{r}, pc, true
					}
				}
			}
			if cn, ok := i.Call.Args[1].(*ssa.Const); ok && cn.Value == nil {
				return []T{{"(mk false " + g.s.lit(constant.StringVal(c.Value)) + ")", "NB"}}, pc, true
			}
		}
		r := g.s.decl("sprintf", "B")
		return []T{{"(mk false " + r.S + ")", "NB"}}, pc, true
	case "fmt.Sprint":
		r := g.s.decl("sprintf", "B")
		return []T{{"(mk false " + r.S + ")", "NB"}}, pc, true
	}
	// generic: unconstrained results; memory handed to the callee (slices, pointers, also
	// when wrapped in an interface value) may have been modified by it
	if !externalIsPure(full) {
		for _, a := range i.Call.Args {
			f.havocReachable(a, st, pc, full)
		}
	}
	callee := i.Call.StaticCallee()
	res := callee.Signature.Results()
	var rs []T
	f.bumpAlloc(st, pc)
	for k := 0; k < res.Len(); k++ {
		r := g.s.decl("ext."+i.Name(), g.sortOf(res.At(k).Type()))
		g.s.assumeUnder(pc, g.typeInv(st, r, res.At(k).Type()))
		rs = append(rs, r)
	}
	g.havocked = append(g.havocked, funcKey(f.fn)+": external "+full+" (results unconstrained, no effect on package state assumed)")
	_ = types.Typ
	return rs, pc, true
}

// externalIsPure: standard-library functions known not to write through their arguments.
func externalIsPure(full string) bool {
	for _, p := range []string{"fmt.", "strings.", "bytes.", "strconv.", "errors.", "math.", "unicode.", "os.Getenv", "regexp.Compile", "regexp.MustCompile", "(*regexp.Regexp).Match", "encoding/json.Marshal", "reflect."} {
		if strings.HasPrefix(full, p) {
			return true
		}
	}
	return false
}

// havocReachable: an external callee may write the elements of a slice / the target of a pointer it is given.
func (f *frame) havocReachable(a ssa.Value, st *State, pc, who string) {
	g := f.g
	if mi, ok := a.(*ssa.MakeInterface); ok {
		f.havocReachable(mi.X, st, pc, who)
		return
	}
	switch t := a.Type().Underlying().(type) {
	case *types.Slice:
		if isByteSlice(a.Type()) {
			return
		}
		v := f.val(a)
		h := g.elemHeapOf(t.Elem())
		hv := g.hv(st, h)
		el := splitSort(hv.sort)[2]
		d := g.s.def(h, T{"(store " + hv.term + " (ptr " + v.S + ") " + g.s.decl("ext."+h, el).S + ")", hv.sort})
		g.setHeap(st, h, g.newHV(h, hv.sort, d.S, hvStore, hv))
		g.havocked = append(g.havocked, funcKey(f.fn)+": external "+who+" may modify the elements of a slice argument (havocked)")
	case *types.Pointer:
		v := f.val(a)
		if stt, ok := t.Elem().Underlying().(*types.Struct); ok {
			for k := 0; k < stt.NumFields(); k++ {
				h, ft := g.fieldHeapOf(t.Elem(), k)
				g.writeHeap(st, h, v.S, g.s.decl("ext."+h, g.sortOf(ft)).S)
			}
		} else if _, isArr := t.Elem().Underlying().(*types.Array); !isArr {
			h := g.boxHeapOf(t.Elem())
			g.writeHeap(st, h, v.S, g.s.decl("ext."+h, g.sortOf(t.Elem())).S)
		}
		g.havocked = append(g.havocked, funcKey(f.fn)+": external "+who+" may write through a pointer argument (havocked)")
	}
}

// heapRefOf: the reference of the heap object handed to container/heap (wrapped in heap.Interface).
func heapRefOf(a ssa.Value, f *frame) string {
	if mi, ok := a.(*ssa.MakeInterface); ok {
		return f.val(mi.X).S
	}
	return f.val(a).S
}


// sprintfTextPieces splits a format that consists of literal text and exactly n plain %s verbs
// into its n+1 literal pieces ("%%" is a literal percent sign).
func sprintfTextPieces(format string, n int) ([]string, bool) {
	var pieces []string
	cur := ""
	for i := 0; i < len(format); i++ {
		if format[i] != '%' {
			cur += string(format[i])
			continue
		}
		if i+1 >= len(format) {
			return nil, false
		}
		switch format[i+1] {
		case '%':
			cur += "%"
		case 's':
			pieces = append(pieces, cur)
			cur = ""
		default:
			return nil, false
		}
		i++
	}
	pieces = append(pieces, cur)
	if len(pieces) != n+1 || n == 0 {
		return nil, false
	}
	return pieces, true
}
