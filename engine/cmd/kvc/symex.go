package main

import (
	"regexp"
	"fmt"
	"go/token"
	"go/types"
	"sort"
	"strings"

	"golang.org/x/tools/go/ssa"
)

// retSite is one return of an executed function.
type retSite struct {
	pc   string
	vals []T
	st   *State
	blk  int
	pos  token.Pos
	cut  int // length of the script when the return was reached
}

// frame is the per-activation data of a symbolically executed function.
type frame struct {
	g      *Gen
	fn     *ssa.Function
	vals   map[ssa.Value]T
	tuples map[ssa.Value][]T
	addrs  map[ssa.Value]addr
	iters  map[ssa.Value]*mapIter
	prefix string
	top    bool // the function under verification (contracts, loops with invariants)
	cells  map[string]*ssa.Alloc
	loops  map[*ssa.BasicBlock]*loopInfo
	rets   []retSite
	npanic map[string]int
	clos   map[ssa.Value]*ssa.MakeClosure
	passed  []string // run-time checks the current instruction has passed (strengthen the path condition)
	closOrd map[ssa.Value]int
	closChecked map[ssa.Value]bool
	defers      []deferRec
}

type mapIter struct {
	m       T
	mt      *types.Map
	visited string // (Array K Bool) term name (current)
	isStr   bool
}

type loopInfo struct {
	head  *ssa.BasicBlock
	body  map[*ssa.BasicBlock]bool
	ord   int
	spec  *LoopSpec
	entry *State // state at loop entry (before havoc)
	cands   []loopCand
	precise map[string][]string // heap -> the only references the loop modifies it at
	nback   int
	measure string
}

func (g *Gen) posStr(p token.Pos) string {
	if !p.IsValid() {
		return ""
	}
	ps := g.P.Prog.Fset.Position(p)
	f := ps.Filename
	if i := strings.LastIndex(f, "/"); i >= 0 {
		f = f[i+1:]
	}
	return fmt.Sprintf("%s:%d", f, ps.Line)
}

func (f *frame) oblig(kind, name, pc, goal, clause string, pos token.Pos, props []string) *Oblig {
	g := f.g
	o := &Oblig{Name: f.prefix + name, Kind: kind, PC: pc, Goal: goal, Clause: clause, Fn: funcKey(g.fn), Pos: g.posStr(pos), Script: g.s, Props: props}
	if g.postStart > 0 {
		// an obligation of a return site: the script up to that return plus what the post-state
		// translation emitted
		o.Ranges = [][2]int{{0, g.retCut}, {g.postStart, len(g.s.lines)}}
	} else {
		o.Ranges = [][2]int{{0, len(g.s.lines)}}
	}
	g.obs = append(g.obs, o)
	return o
}

// panicOb records a run-time-panic obligation; the name is function + kind + ordinal of that kind.
func (f *frame) panicOb(kind string, pc, goal string, pos token.Pos, what string) {
	if goal == "true" {
		return
	}
	n := f.npanic[kind]
	f.npanic[kind] = n + 1
	f.oblig("panic."+kind, fmt.Sprintf("%s#panic.%s.%d", funcKey(f.fn), kind, n), pc, goal, what, pos, nil)
	// execution continues past this point only if the check succeeded
	f.passed = append(f.passed, goal)
}

func (f *frame) val(v ssa.Value) T {
	g := f.g
	switch c := v.(type) {
	case *ssa.Const:
		if c.Value == nil {
			return g.zero(c.Type())
		}
		return g.constVal(c.Value, c.Type()).T
	case *ssa.Global:
		fail("%s: address of global %s used as a value", f.fn.Name(), c.Name())
	case *ssa.Function:
		return T{g.funcConst(c), "Int"}
	case *ssa.Builtin:
		fail("%s: builtin %s used as a value", f.fn.Name(), c.Name())
	}
	if t, ok := f.vals[v]; ok {
		return t
	}
	if fv, ok := v.(*ssa.FreeVar); ok {
		fail("%s: free variable %s has no binding", f.fn.Name(), fv.Name())
	}
	fail("%s: no value for %s = %s", f.fn.Name(), v.Name(), v)
	return T{}
}

func (g *Gen) funcConst(fn *ssa.Function) string {
	n := "fn." + sanitize(funcKey(fn))
	if !g.s.decls[n] {
		g.s.declNamed(n, "Int")
		g.s.assume("(> " + n + " 0)")
	}
	return n
}

// ---------- addresses ----------

func (f *frame) addrOf(v ssa.Value) addr {
	if a, ok := f.addrs[v]; ok {
		return a
	}
	g := f.g
	switch x := v.(type) {
	case *ssa.Global:
		t := x.Type().Underlying().(*types.Pointer).Elem()
		h := "G." + x.Name()
		g.declHeap(h, g.sortOf(t))
		return addr{kind: "global", heap: h, ty: t, bty: t}
	case *ssa.FreeVar:
		// captured variable: a boxed cell
		if t, ok := f.vals[v]; ok {
			et := x.Type().Underlying().(*types.Pointer).Elem()
			return addr{kind: "boxed", heap: g.boxHeapOf(et), ref: t.S, ty: et, bty: et}
		}
	}
	// a pointer value used as an address: pointer to boxed scalar
	if pt, ok := v.Type().Underlying().(*types.Pointer); ok {
		if _, isStruct := pt.Elem().Underlying().(*types.Struct); !isStruct {
			if t, ok := f.vals[v]; ok {
				return addr{kind: "boxed", heap: g.boxHeapOf(pt.Elem()), ref: t.S, ty: pt.Elem(), bty: pt.Elem()}
			}
		}
	}
	fail("%s: no address for %s = %s", f.fn.Name(), v.Name(), v)
	return addr{}
}

func (g *Gen) pathGet(base T, bty types.Type, path []pathStep) T {
	cur := base
	for _, p := range path {
		fld := p.st.Field(p.field)
		cur = T{app(p.named+"."+fld.Name(), cur.S), g.sortOf(fld.Type())}
	}
	return cur
}

func (g *Gen) pathSet(base T, path []pathStep, v T) T {
	if len(path) == 0 {
		return v
	}
	p := path[0]
	var fs []string
	for i := 0; i < p.st.NumFields(); i++ {
		fld := p.st.Field(i)
		cur := T{app(p.named+"."+fld.Name(), base.S), g.sortOf(fld.Type())}
		if i == p.field {
			cur = g.pathSet(cur, path[1:], v)
		}
		fs = append(fs, cur.S)
	}
	return T{app("mk."+p.named, fs...), base.So}
}

func (f *frame) loadBase(st *State, a addr) T {
	g := f.g
	so := g.sortOf(a.bty)
	switch a.kind {
	case "cell":
		v, ok := st.cells[a.cell]
		if !ok {
			fail("%s: read of dead cell %s", f.fn.Name(), a.cell.Comment)
		}
		return v
	case "field", "boxed":
		return T{g.readHeap(st, a.heap, a.ref), so}
	case "elem":
		return T{"(select " + g.readHeap(st, a.heap, a.ref) + " " + a.idx + ")", so}
	case "global":
		return T{g.readHeap(st, a.heap, ""), so}
	}
	fail("load from address kind %q", a.kind)
	return T{}
}

func (f *frame) load(st *State, a addr, pc string) T {
	g := f.g
	v := g.pathGet(f.loadBase(st, a), a.bty, a.path)
	v = g.s.def("ld", v)
	if a.kind != "cell" {
		g.s.assumeUnder(pc, g.typeInv(st, v, a.ty))
	}
	return v
}

func (f *frame) store(st *State, a addr, v T) {
	g := f.g
	if len(a.path) > 0 {
		v = g.pathSet(f.loadBase(st, a), a.path, v)
	}
	switch a.kind {
	case "cell":
		st.cells[a.cell] = g.s.def("c."+a.cell.Comment, v)
	case "field", "boxed":
		g.writeHeap(st, a.heap, a.ref, v.S)
	case "elem":
		arr := g.readHeap(st, a.heap, a.ref)
		g.writeHeap(st, a.heap, a.ref, "(store "+arr+" "+a.idx+" "+v.S+")")
	case "global":
		g.writeHeap(st, a.heap, "", v.S)
	default:
		fail("store to address kind %q", a.kind)
	}
}

// ---------- CFG helpers ----------

func isBackEdge(from, to *ssa.BasicBlock) bool { return to.Dominates(from) }

func findLoops(fn *ssa.Function) map[*ssa.BasicBlock]*loopInfo {
	loops := map[*ssa.BasicBlock]*loopInfo{}
	for _, b := range fn.Blocks {
		for _, h := range b.Succs {
			if !isBackEdge(b, h) {
				continue
			}
			li := loops[h]
			if li == nil {
				li = &loopInfo{head: h, body: map[*ssa.BasicBlock]bool{h: true}}
				loops[h] = li
			}
			var stack []*ssa.BasicBlock
			if !li.body[b] {
				li.body[b] = true
				stack = append(stack, b)
			}
			for len(stack) > 0 {
				n := stack[len(stack)-1]
				stack = stack[:len(stack)-1]
				for _, p := range n.Preds {
					if !li.body[p] {
						li.body[p] = true
						stack = append(stack, p)
					}
				}
			}
		}
	}
	var heads []*ssa.BasicBlock
	for h := range loops {
		heads = append(heads, h)
	}
	sort.Slice(heads, func(i, j int) bool { return heads[i].Index < heads[j].Index })
	for i, h := range heads {
		loops[h].ord = i
	}
	return loops
}

func rpo(fn *ssa.Function) []*ssa.BasicBlock {
	var order []*ssa.BasicBlock
	seen := map[*ssa.BasicBlock]bool{}
	var dfs func(b *ssa.BasicBlock)
	dfs = func(b *ssa.BasicBlock) {
		seen[b] = true
		for i := len(b.Succs) - 1; i >= 0; i-- {
			su := b.Succs[i]
			if !seen[su] && !isBackEdge(b, su) {
				dfs(su)
			}
		}
		order = append(order, b)
	}
	dfs(fn.Blocks[0])
	for i, j := 0, len(order)-1; i < j; i, j = i+1, j-1 {
		order[i], order[j] = order[j], order[i]
	}
	return order
}

type edge struct {
	cond string
	st   *State
}

// mergeStates joins the states of the incoming edges with ite over the edge conditions.
func (g *Gen) mergeStates(es []edge) (string, *State) {
	if len(es) == 1 {
		return es[0].cond, es[0].st.clone()
	}
	conds := make([]string, len(es))
	for i, e := range es {
		conds[i] = e.cond
	}
	pc := g.s.def("pc", T{or(conds...), "Bool"}).S
	st := &State{cells: map[*ssa.Alloc]T{}, heap: map[string]*HV{}}
	// cells live on every incoming edge
	for c, v0 := range es[0].st.cells {
		vs := []T{v0}
		ok := true
		for _, e := range es[1:] {
			v, live := e.st.cells[c]
			if !live {
				ok = false
				break
			}
			vs = append(vs, v)
		}
		if !ok {
			continue
		}
		same := true
		for _, v := range vs {
			same = same && v.S == vs[0].S
		}
		if same {
			st.cells[c] = vs[0]
			continue
		}
		t := vs[len(vs)-1].S
		for i := len(vs) - 2; i >= 0; i-- {
			t = ite(conds[i], vs[i].S, t)
		}
		st.cells[c] = g.s.def("m."+c.Comment, T{t, vs[0].So})
	}
	names := map[string]bool{}
	for _, e := range es {
		for n := range e.st.heap {
			names[n] = true
		}
	}
	for _, n := range sortedKeys(names) {
		hvs := make([]*HV, len(es))
		same := true
		for i, e := range es {
			hvs[i] = g.hv(e.st, n)
			same = same && hvs[i] == hvs[0]
		}
		if same {
			st.heap[n] = hvs[0]
			continue
		}
		t := hvs[len(hvs)-1].term
		for i := len(hvs) - 2; i >= 0; i-- {
			t = ite(conds[i], hvs[i].term, t)
		}
		d := g.s.def("m."+n, T{t, hvs[0].sort})
		st.heap[n] = g.newHV(n, hvs[0].sort, d.S, hvMerge, hvs...)
	}
	return pc, st
}

// ---------- the executor ----------

func (g *Gen) newFrame(fn *ssa.Function, prefix string, top bool) *frame {
	f := &frame{g: g, fn: fn, vals: map[ssa.Value]T{}, tuples: map[ssa.Value][]T{}, addrs: map[ssa.Value]addr{}, iters: map[ssa.Value]*mapIter{},
		prefix: prefix, top: top, cells: map[string]*ssa.Alloc{}, npanic: map[string]int{}, clos: map[ssa.Value]*ssa.MakeClosure{}, closOrd: map[ssa.Value]int{}, closChecked: map[ssa.Value]bool{}}
	for _, b := range fn.Blocks {
		for _, ins := range b.Instrs {
			if a, ok := ins.(*ssa.Alloc); ok && a.Comment != "" {
				n := a.Comment
				for k := 2; f.cells[n] != nil; k++ {
					n = fmt.Sprintf("%s#%d", a.Comment, k)
				}
				f.cells[n] = a
			}
		}
	}
	f.loops = findLoops(fn)
	return f
}

// run executes fn from st0 under pc0 with the given argument values.
func (f *frame) run(args []T, st0 *State, pc0 string) {
	g := f.g
	fn := f.fn
	if len(fn.Blocks) == 0 {
		fail("%s has no body", fn.Name())
	}
	for i, p := range fn.Params {
		f.vals[p] = args[i]
	}
	in := map[*ssa.BasicBlock]map[*ssa.BasicBlock]edge{}
	latchChain := map[*ssa.BasicBlock]bool{}
	var addEdge func(from, to *ssa.BasicBlock, c string, st *State)
	addEdge = func(from, to *ssa.BasicBlock, c string, st *State) {
		if c == "false" {
			return
		}
		if isBackEdge(from, to) {
			f.backEdge(from, to, c, st)
			return
		}
		if latchChain[to] {
			// a join that only leads (straight-line) to the loop's back edge: executed once per
			// incoming path, so that invariant preservation is decided path by path; its phis take
			// the value of this path's edge
			for _, ins := range to.Instrs {
				phi, ok := ins.(*ssa.Phi)
				if !ok {
					break
				}
				for i, bp := range to.Preds {
					if bp == from {
						f.vals[phi] = f.val(phi.Edges[i])
						break
					}
				}
			}
			f.block(to, c, st.clone(), addEdge)
			return
		}
		if in[to] == nil {
			in[to] = map[*ssa.BasicBlock]edge{}
		}
		in[to][from] = edge{c, st}
	}
	if f.top && g.spec != nil && g.spec.SplitLatch {
		for _, b := range fn.Blocks {
			if len(b.Preds) < 2 {
				continue
			}
			// follow single-successor jumps; the chain must end in a back edge
			cur, ok, steps := b, false, 0
			for steps < 8 {
				if len(cur.Succs) != 1 {
					break
				}
				if _, isJump := cur.Instrs[len(cur.Instrs)-1].(*ssa.Jump); !isJump {
					break
				}
				nx := cur.Succs[0]
				if isBackEdge(cur, nx) {
					ok = true
					break
				}
				if len(nx.Preds) != 1 {
					break
				}
				cur = nx
				steps++
			}
			if ok && f.loops[b] == nil {
				latchChain[b] = true
			}
		}
	}
	for _, b := range rpo(fn) {
		var pc string
		var st *State
		if b == fn.Blocks[0] {
			pc, st = pc0, st0.clone()
			f.initDefers(st)
		} else {
			var es []edge
			var preds []*ssa.BasicBlock
			for _, p := range b.Preds {
				if e, ok := in[b][p]; ok {
					es = append(es, e)
					preds = append(preds, p)
				}
			}
			if len(es) == 0 {
				continue
			}
			// phis are evaluated on the incoming edges before merging
			var phiVals [][]T
			for _, ins := range b.Instrs {
				phi, ok := ins.(*ssa.Phi)
				if !ok {
					break
				}
				var vs []T
				for _, p := range preds {
					for i, bp := range b.Preds {
						if bp == p {
							vs = append(vs, f.val(phi.Edges[i]))
							break
						}
					}
				}
				phiVals = append(phiVals, vs)
			}
			pc, st = g.mergeStates(es)
			k := 0
			for _, ins := range b.Instrs {
				phi, ok := ins.(*ssa.Phi)
				if !ok {
					break
				}
				vs := phiVals[k]
				k++
				t := vs[len(vs)-1].S
				for i := len(vs) - 2; i >= 0; i-- {
					t = ite(es[i].cond, vs[i].S, t)
				}
				f.vals[phi] = g.s.def(phi.Name(), T{t, g.sortOf(phi.Type())})
			}
			if li, ok := f.loops[b]; ok {
				pc = f.loopHeader(li, pc, st)
			}
		}
		f.block(b, pc, st, addEdge)
	}
}

func (f *frame) block(b *ssa.BasicBlock, pc string, st *State, addEdge func(from, to *ssa.BasicBlock, c string, st *State)) {
	g := f.g
	for _, ins := range b.Instrs {
		switch i := ins.(type) {
		case *ssa.Phi, *ssa.DebugRef:
		case *ssa.RunDefers:
			f.runDefers(st, pc)
		case *ssa.If:
			c := f.val(i.Cond).S
			addEdge(b, b.Succs[0], and(pc, c), st)
			addEdge(b, b.Succs[1], and(pc, not(c)), st)
			return
		case *ssa.Jump:
			addEdge(b, b.Succs[0], pc, st)
			return
		case *ssa.Return:
			var rs []T
			for _, r := range i.Results {
				rs = append(rs, f.val(r))
			}
			f.rets = append(f.rets, retSite{pc, rs, st, b.Index, i.Pos(), len(g.s.lines)})
			return
		case *ssa.Panic:
			f.panicOb("explicit", pc, "false", i.Pos(), "explicit panic is unreachable")
			return
		default:
			pc = f.instr(ins, pc, st)
			if len(f.passed) > 0 {
				pc = g.s.def("pc", T{and(append([]string{pc}, f.passed...)...), "Bool"}).S
				f.passed = f.passed[:0]
			}
		}
	}
}

// instr executes one non-control instruction; it may strengthen the path condition.
func (f *frame) instr(ins ssa.Instruction, pc string, st *State) string {
	g := f.g
	switch i := ins.(type) {
	case *ssa.Alloc:
		f.doAlloc(i, st, pc)
	case *ssa.Store:
		v := f.val(i.Val)
		if a, ok := i.Addr.(*ssa.Alloc); ok && !a.Heap && f.isCell(a) {
			st.cells[a] = v
		} else if stt, pe, ok := structPointee(i.Addr); ok && f.addrs[i.Addr].kind == "" {
			// store of a whole struct value through a pointer (x := *p; q := &x): field by field
			ref := f.val(i.Addr)
			f.panicOb("nil", pc, not(eq(ref.S, "0")), i.Pos(), "nil pointer dereference")
			so := g.sortOf(pe)
			for k := 0; k < stt.NumFields(); k++ {
				h, _ := g.fieldHeapOf(pe, k)
				g.writeHeap(st, h, ref.S, app(structName(so)+"."+stt.Field(k).Name(), v.S))
			}
		} else {
			f.store(st, f.addrOf(i.Addr), v)
		}
	case *ssa.UnOp:
		f.doUnOp(i, st, pc)
	case *ssa.BinOp:
		f.vals[i] = g.s.def(i.Name(), f.binop(i, pc))
	case *ssa.FieldAddr:
		f.doFieldAddr(i, st, pc)
	case *ssa.Field:
		x := f.val(i.X)
		stt := i.X.Type().Underlying().(*types.Struct)
		so := g.sortOf(i.X.Type())
		f.vals[i] = T{app(structName(so)+"."+stt.Field(i.Field).Name(), x.S), g.sortOf(stt.Field(i.Field).Type())}
	case *ssa.IndexAddr:
		f.doIndexAddr(i, st, pc)
	case *ssa.Index:
		f.doIndex(i, st, pc)
	case *ssa.Slice:
		f.doSlice(i, st, pc)
	case *ssa.MakeSlice:
		ln := f.val(i.Len)
		f.panicOb("makeslice", pc, "(>= "+ln.S+" 0)", i.Pos(), "make: length is non-negative")
		et := i.Type().Underlying().(*types.Slice).Elem()
		if isByteSlice(i.Type()) {
			// make([]byte, n[, cap]): n zero bytes (byte strings are values: capacity is not modelled)
			if ln.S == "0" {
				f.vals[i] = T{"(mk false eps)", "NB"}
				return pc
			}
			z := g.s.decl("zeros", "B")
			g.s.assumeUnder(pc, eq("(blen "+z.S+")", ln.S))
			f.vals[i] = T{"(mk false " + z.S + ")", "NB"}
			return pc
		}
		p := g.fresh(st)
		h := g.elemHeapOf(et)
		g.writeHeap(st, h, p, g.s.zeroArr(g.sortOf(et), g.zero(et).S))
		f.vals[i] = g.s.def(i.Name(), T{"(slc " + p + " 0 " + ln.S + " false)", "Slc"})
	case *ssa.MakeMap:
		mt := i.Type().Underlying().(*types.Map)
		p := g.fresh(st)
		g.writeHeap(st, g.mapHasHeap(mt), p, "((as const (Array "+g.mapKeySort(mt)+" Bool)) false)")
		f.vals[i] = T{p, "Int"}
	case *ssa.MapUpdate:
		mt := i.Map.Type().Underlying().(*types.Map)
		m := f.val(i.Map)
		f.panicOb("nilmap", pc, not(eq(m.S, "0")), i.Pos(), "assignment to entry in nil map")
		k := f.mapKey(f.val(i.Key))
		g.addInstTerm(g.mapKeySort(mt), k) // a key the code writes is a key the universal facts about the map are used at
		hh, hvn := g.mapHasHeap(mt), g.mapValHeap(mt)
		g.writeHeap(st, hh, m.S, "(store "+g.readHeap(st, hh, m.S)+" "+k+" true)")
		g.writeHeap(st, hvn, m.S, "(store "+g.readHeap(st, hvn, m.S)+" "+k+" "+f.val(i.Value).S+")")
	case *ssa.Lookup:
		f.doLookup(i, st, pc)
	case *ssa.Range:
		f.doRange(i, st, pc)
	case *ssa.Next:
		f.doNext(i, st, pc)
	case *ssa.Extract:
		ts, ok := f.tuples[i.Tuple]
		if !ok {
			fail("%s: extract from unknown tuple %s", f.fn.Name(), i.Tuple.Name())
		}
		f.vals[i] = ts[i.Index]
	case *ssa.MakeInterface:
		f.vals[i] = g.s.def(i.Name(), f.makeIface(f.val(i.X), i.X.Type(), i.Type(), pc))
	case *ssa.ChangeInterface:
		f.vals[i] = f.changeIface(f.val(i.X), i.X.Type(), i.Type())
	case *ssa.ChangeType:
		f.vals[i] = f.val(i.X)
	case *ssa.Convert:
		f.vals[i] = g.s.def(i.Name(), f.convert(f.val(i.X), i.X.Type(), i.Type()))
	case *ssa.TypeAssert:
		f.doTypeAssert(i, st, pc)
	case *ssa.MakeClosure:
		f.clos[i] = i
		f.closOrd[i] = len(f.closOrd)
		f.vals[i] = T{g.fresh(st), "Int"}
	case *ssa.Defer:
		f.doDefer(i, st)
	case *ssa.Go, *ssa.Send, *ssa.Select:
		fail("%s: goroutines / channels are outside the subset", f.fn.Name())
	case *ssa.Call:
		return f.doCall(i, st, pc)
	default:
		fail("%s: unsupported instruction %T: %s", f.fn.Name(), ins, ins)
	}
	return pc
}

// isCell: a non-escaping local whose address is only used by loads / stores / field addressing.
func (f *frame) isCell(a *ssa.Alloc) bool { return !a.Heap }

func (f *frame) doAlloc(i *ssa.Alloc, st *State, pc string) {
	g := f.g
	et := i.Type().Underlying().(*types.Pointer).Elem()
	if !i.Heap {
		if _, isArr := et.Underlying().(*types.Array); isArr {
			fail("%s: local array variable %s is outside the subset", f.fn.Name(), i.Comment)
		}
		st.cells[i] = g.zero(et)
		f.addrs[i] = addr{kind: "cell", cell: i, ty: et, bty: et}
		return
	}
	ref := g.fresh(st)
	f.vals[i] = T{ref, "Int"}
	switch u := et.Underlying().(type) {
	case *types.Struct:
		for k := 0; k < u.NumFields(); k++ {
			h, ft := g.fieldHeapOf(et, k)
			g.writeHeap(st, h, ref, g.zero(ft).S)
		}
		if _, named := et.(*types.Named); named {
			g.s.assumeUnder(pc, eq("(dyn "+ref+")", g.tag(types.NewPointer(et))))
		}
	case *types.Array:
		h := g.elemHeapOf(u.Elem())
		g.writeHeap(st, h, ref, g.s.zeroArr(g.sortOf(u.Elem()), g.zero(u.Elem()).S))
	default:
		h := g.boxHeapOf(et)
		g.writeHeap(st, h, ref, g.zero(et).S)
		f.addrs[i] = addr{kind: "boxed", heap: h, ref: ref, ty: et, bty: et}
	}
}

func (f *frame) doUnOp(i *ssa.UnOp, st *State, pc string) {
	g := f.g
	switch i.Op {
	case token.MUL:
		if a, ok := i.X.(*ssa.Alloc); ok && !a.Heap {
			v, live := st.cells[a]
			if !live {
				fail("%s: read of dead variable %s", f.fn.Name(), a.Comment)
			}
			f.vals[i] = v
			return
		}
		if gl, ok := i.X.(*ssa.Global); ok && gl.Pkg != g.P.SPkg {
			// a value-typed variable of another package (e.g. binary.BigEndian, an empty struct used
			// as a method namespace): only its methods' models matter
			if stt, ok := gl.Type().Underlying().(*types.Pointer).Elem().Underlying().(*types.Struct); ok && stt.NumFields() == 0 {
				f.vals[i] = T{"0", "Int"}
				return
			}
		}
		// load of a whole struct through a pointer: rebuild the value from the field heaps
		if pt, ok := i.X.Type().Underlying().(*types.Pointer); ok {
			if stt, ok := pt.Elem().Underlying().(*types.Struct); ok {
				if _, known := f.addrs[i.X]; !known {
					ref := f.val(i.X)
					f.panicOb("nil", pc, not(eq(ref.S, "0")), i.Pos(), "nil pointer dereference")
					var fs []string
					for k := 0; k < stt.NumFields(); k++ {
						h, _ := g.fieldHeapOf(pt.Elem(), k)
						fs = append(fs, g.readHeap(st, h, ref.S))
					}
					so := g.sortOf(pt.Elem())
					f.vals[i] = g.s.def(i.Name(), T{app("mk."+structName(so), fs...), so})
					return
				}
			}
		}
		a := f.addrOf(i.X)
		f.vals[i] = f.load(st, a, pc)
	case token.NOT:
		f.vals[i] = T{not(f.val(i.X).S), "Bool"}
	case token.SUB:
		x := f.val(i.X)
		if x.So == "F64" {
			f.vals[i] = T{"(fneg " + x.S + ")", "F64"}
		} else if b, ok := i.X.Type().Underlying().(*types.Basic); ok && (b.Kind() == types.Int64 || b.Kind() == types.Int) {
			// two's-complement negation is exact except at the minimum, which it maps to itself
			f.vals[i] = g.s.def(i.Name(), T{ite("(= "+x.S+" (- 9223372036854775808))", x.S, "(- "+x.S+")"), "Int"})
		} else {
			f.vals[i] = T{"(- " + x.S + ")", "Int"}
		}
	default:
		f.vals[i] = f.opaque(i, "unary "+i.Op.String())
	}
}

// opaque models an operation the engine does not interpret: an unconstrained value.
func (f *frame) opaque(v ssa.Value, what string) T {
	g := f.g
	g.warn = append(g.warn, fmt.Sprintf("%s: %s treated as an unconstrained value", funcKey(f.fn), what))
	return g.s.decl("opq."+v.Name(), g.sortOf(v.Type()))
}

func (f *frame) binop(i *ssa.BinOp, pc string) T {
	a, b := f.val(i.X), f.val(i.Y)
	xt := i.X.Type()
	switch i.Op {
	case token.EQL, token.NEQ:
		var t string
		switch a.So {
		case "NB":
			if isByteSlice(xt) || isByteSlice(i.Y.Type()) { // only comparison with nil is legal
				if a.S == "(mk true eps)" {
					t = "(isnil " + b.S + ")"
				} else {
					t = "(isnil " + a.S + ")"
				}
			} else {
				t = eq("(val "+a.S+")", "(val "+b.S+")")
			}
		case "Slc":
			if a.S == "(slc 0 0 0 true)" {
				t = "(snil " + b.S + ")"
			} else {
				t = "(snil " + a.S + ")"
			}
		case "F64":
			t = "(feq " + a.S + " " + b.S + ")"
		case "Int":
			if _, isMap := xt.Underlying().(*types.Map); isMap {
				if a.S == "0" {
					t = eq(b.S, "0")
				} else {
					t = eq(a.S, "0")
				}
			} else {
				t = eq(a.S, b.S)
			}
		default:
			t = eq(a.S, b.S)
		}
		if i.Op == token.NEQ {
			t = not(t)
		}
		return T{t, "Bool"}
	case token.LSS, token.LEQ, token.GTR, token.GEQ:
		switch a.So {
		case "NB":
			x, y := "(val "+a.S+")", "(val "+b.S+")"
			switch i.Op {
			case token.LSS:
				return T{"(lt " + x + " " + y + ")", "Bool"}
			case token.LEQ:
				return T{"(le " + x + " " + y + ")", "Bool"}
			case token.GTR:
				return T{"(lt " + y + " " + x + ")", "Bool"}
			default:
				return T{"(le " + y + " " + x + ")", "Bool"}
			}
		case "F64":
			switch i.Op {
			case token.LSS:
				return T{"(flt " + a.S + " " + b.S + ")", "Bool"}
			case token.LEQ:
				return T{"(fle " + a.S + " " + b.S + ")", "Bool"}
			case token.GTR:
				return T{"(flt " + b.S + " " + a.S + ")", "Bool"}
			default:
				return T{"(fle " + b.S + " " + a.S + ")", "Bool"}
			}
		}
		op := map[token.Token]string{token.LSS: "<", token.LEQ: "<=", token.GTR: ">", token.GEQ: ">="}[i.Op]
		return T{"(" + op + " " + a.S + " " + b.S + ")", "Bool"}
	case token.ADD, token.SUB, token.MUL:
		switch a.So {
		case "NB":
			if i.Op != token.ADD {
				break
			}
			return T{"(mk false (cat (val " + a.S + ") (val " + b.S + ")))", "NB"}
		case "F64":
			fn := map[token.Token]string{token.ADD: "fadd", token.SUB: "fsub", token.MUL: "fmul"}[i.Op]
			return T{"(" + fn + " " + a.S + " " + b.S + ")", "F64"}
		case "Int":
			if i.Op == token.MUL {
				return T{mulTerm(a.S, b.S), "Int"}
			}
			op := map[token.Token]string{token.ADD: "+", token.SUB: "-", token.MUL: "*"}[i.Op]
			return T{"(" + op + " " + a.S + " " + b.S + ")", "Int"}
		}
	case token.QUO, token.REM:
		if a.So == "F64" {
			return T{"(fdiv " + a.S + " " + b.S + ")", "F64"}
		}
		if a.So == "Int" {
			f.panicOb("div", pc, not(eq(b.S, "0")), i.Pos(), "integer division by zero")
			if i.Op == token.QUO {
				return T{divTerm("tdiv", a.S, b.S), "Int"}
			}
			return T{divTerm("tmod", a.S, b.S), "Int"}
		}
	case token.LAND, token.LOR:
		if a.So == "Bool" {
			if i.Op == token.LAND {
				return T{and(a.S, b.S), "Bool"}
			}
			return T{or(a.S, b.S), "Bool"}
		}
	}
	return f.opaque(i, "binary "+i.Op.String()+" on "+a.So)
}

func (f *frame) doFieldAddr(i *ssa.FieldAddr, st *State, pc string) {
	g := f.g
	pt := i.X.Type().Underlying().(*types.Pointer)
	stt := pt.Elem().Underlying().(*types.Struct)
	// field of a struct value stored at a known address (local struct variable, slice element, boxed struct)
	if base, ok := f.addrs[i.X]; ok {
		so := g.sortOf(pt.Elem())
		a := base
		a.path = append(append([]pathStep{}, base.path...), pathStep{stt, structName(so), i.Field})
		a.ty = stt.Field(i.Field).Type()
		f.addrs[i] = a
		return
	}
	ref := f.val(i.X)
	g.addInstTerm("Ref", ref.S)
	f.panicOb("nil", pc, not(eq(ref.S, "0")), i.Pos(), "nil pointer dereference (."+stt.Field(i.Field).Name()+")")
	h, ft := g.fieldHeapOf(pt.Elem(), i.Field)
	f.addrs[i] = addr{kind: "field", heap: h, ref: ref.S, ty: ft, bty: ft}
}

func (f *frame) doIndexAddr(i *ssa.IndexAddr, st *State, pc string) {
	g := f.g
	idx := f.val(i.Index)
	switch xt := i.X.Type().Underlying().(type) {
	case *types.Slice:
		if isByteSlice(i.X.Type()) {
			fail("%s: element address of a []byte is outside the subset", f.fn.Name())
		}
		s := f.val(i.X)
		g.instForalls(idx.S)
		f.panicOb("index", pc, and("(<= 0 "+idx.S+")", "(< "+idx.S+" (len_ "+s.S+"))"), i.Pos(), "index out of range")
		h := g.elemHeapOf(xt.Elem())
		abs := g.s.def("ix", T{"(+ (off " + s.S + ") " + idx.S + ")", "Int"}).S
		g.instForalls(abs) // facts stated over absolute positions in the backing array
		f.addrs[i] = addr{kind: "elem", heap: h, ref: "(ptr " + s.S + ")", idx: abs, ty: xt.Elem(), bty: xt.Elem()}
	case *types.Pointer: // pointer to array
		arr := xt.Elem().Underlying().(*types.Array)
		f.panicOb("index", pc, and("(<= 0 "+idx.S+")", fmt.Sprintf("(< %s %d)", idx.S, arr.Len())), i.Pos(), "index out of range")
		h := g.elemHeapOf(arr.Elem())
		f.addrs[i] = addr{kind: "elem", heap: h, ref: f.val(i.X).S, idx: idx.S, ty: arr.Elem(), bty: arr.Elem()}
	default:
		fail("%s: IndexAddr on %s", f.fn.Name(), i.X.Type())
	}
}

func (f *frame) doIndex(i *ssa.Index, st *State, pc string) {
	g := f.g
	x := f.val(i.X)
	idx := f.val(i.Index)
	if isString(i.X.Type()) {
		f.panicOb("index", pc, and("(<= 0 "+idx.S+")", "(< "+idx.S+" (blen (val "+x.S+")))"), i.Pos(), "string index out of range")
		f.vals[i] = g.s.def(i.Name(), T{"(at (val " + x.S + ") " + idx.S + ")", "Int"})
		g.s.assumeUnder(pc, and("(<= 0 "+f.vals[i].S+")", "(<= "+f.vals[i].S+" 255)"))
		return
	}
	fail("%s: Index on %s", f.fn.Name(), i.X.Type())
}

func (f *frame) doSlice(i *ssa.Slice, st *State, pc string) {
	g := f.g
	x := f.val(i.X)
	var lo, hi string
	if i.Low != nil {
		lo = f.val(i.Low).S
	}
	if i.High != nil {
		hi = f.val(i.High).S
	}
	if i.Max != nil {
		fail("%s: 3-index slice is outside the subset", f.fn.Name())
	}
	switch xt := i.X.Type().Underlying().(type) {
	case *types.Pointer: // array -> slice
		arr := xt.Elem().Underlying().(*types.Array)
		if b, ok := arr.Elem().(*types.Basic); ok && (b.Kind() == types.Byte || b.Kind() == types.Uint8) {
			if arr.Len() == 0 {
				f.vals[i] = T{"(mk false eps)", "NB"} // []byte{}
				return
			}
			if al, ok := i.X.(*ssa.Alloc); ok && al.Comment == "makeslice" {
				// make([]byte, n, cap): n zero bytes (their values are not tracked beyond the length)
				if hi == "" {
					hi = fmt.Sprint(arr.Len())
				}
				if lo == "" {
					lo = "0"
				}
				if hi == lo || hi == "0" {
					f.vals[i] = T{"(mk false eps)", "NB"}
					return
				}
				z := g.s.decl("zeros", "B")
				g.s.assumeUnder(pc, eq("(blen "+z.S+")", "(- "+hi+" "+lo+")"))
				f.vals[i] = T{"(mk false " + z.S + ")", "NB"}
				return
			}
			fail("%s: byte array literals are outside the subset", f.fn.Name())
		}
		n := fmt.Sprint(arr.Len())
		if lo == "" {
			lo = "0"
		}
		if hi == "" {
			hi = n
		}
		f.panicOb("slice", pc, and("(<= 0 "+lo+")", "(<= "+lo+" "+hi+")", "(<= "+hi+" "+n+")"), i.Pos(), "slice bounds out of range")
		f.vals[i] = g.s.def(i.Name(), T{"(slc " + x.S + " " + lo + " (- " + hi + " " + lo + ") false)", "Slc"})
	case *types.Slice:
		if isByteSlice(i.X.Type()) {
			f.sliceBytes(i, x, lo, hi, pc)
			return
		}
		if lo == "" {
			lo = "0"
		}
		if hi == "" {
			hi = "(len_ " + x.S + ")"
			f.panicOb("slice", pc, and("(<= 0 "+lo+")", "(<= "+lo+" "+hi+")"), i.Pos(), "slice bounds out of range")
		} else {
			// s[:hi] may extend up to cap(s); capacity is not modelled, so hi <= len is required
			f.panicOb("slice", pc, and("(<= 0 "+lo+")", "(<= "+lo+" "+hi+")", "(<= "+hi+" (len_ "+x.S+"))"), i.Pos(), "slice bounds out of range (capacity not modelled: high <= len required)")
		}
		f.vals[i] = g.s.def(i.Name(), T{"(slc (ptr " + x.S + ") (+ (off " + x.S + ") " + lo + ") (- " + hi + " " + lo + ") (snil " + x.S + "))", "Slc"})
	case *types.Basic: // string
		f.sliceBytes(i, x, lo, hi, pc)
	default:
		fail("%s: Slice on %s", f.fn.Name(), i.X.Type())
	}
}

func (f *frame) sliceBytes(i *ssa.Slice, x T, lo, hi string, pc string) {
	g := f.g
	if lo == "" {
		lo = "0"
	}
	if hi == "" {
		hi = "(blen (val " + x.S + "))"
	}
	f.panicOb("slice", pc, and("(<= 0 "+lo+")", "(<= "+lo+" "+hi+")", "(<= "+hi+" (blen (val "+x.S+")))"), i.Pos(), "slice bounds out of range")
	f.vals[i] = g.s.def(i.Name(), T{"(mk false (sub (val " + x.S + ") " + lo + " " + hi + "))", "NB"})
}

func (f *frame) mapKey(k T) string {
	if k.So == "NB" {
		return "(val " + k.S + ")"
	}
	return k.S
}

func (f *frame) doLookup(i *ssa.Lookup, st *State, pc string) {
	g := f.g
	mt, ok := i.X.Type().Underlying().(*types.Map)
	if !ok {
		f.doIndexString(i, st, pc)
		return
	}
	if cm := g.P.constMapOf(i.X); cm != nil {
		// effectively constant global map: a finite case split over its literal entries
		k := f.mapKey(f.val(i.Index))
		var hasCs []string
		vt := g.zero(mt.Elem()).S
		for n := len(cm.entries) - 1; n >= 0; n-- {
			e := cm.entries[n]
			kc := f.mapKey(g.constVal(e.k.Value, e.k.Type()).T)
			hasCs = append(hasCs, eq(k, kc))
			vt = ite(eq(k, kc), g.constVal(e.v.Value, e.v.Type()).T.S, vt)
		}
		has := g.s.def(i.Name()+".has", T{or(hasCs...), "Bool"}).S
		v := g.s.def(i.Name(), T{vt, g.sortOf(mt.Elem())})
		g.constMapsUsed[cm.g.Name()] = true
		if i.CommaOk {
			f.tuples[i] = []T{v, {has, "Bool"}}
		} else {
			f.vals[i] = v
		}
		return
	}
	m := f.val(i.X)
	k := f.mapKey(f.val(i.Index))
	g.addInstTerm(g.mapKeySort(mt), k)
	has := "(select " + g.readHeap(st, g.mapHasHeap(mt), m.S) + " " + k + ")"
	if m.S == "0" {
		has = "false"
	}
	v := T{ite(has, "(select "+g.readHeap(st, g.mapValHeap(mt), m.S)+" "+k+")", g.zero(mt.Elem()).S), g.sortOf(mt.Elem())}
	v = g.s.def(i.Name(), v)
	g.s.assumeUnder(pc, g.typeInv(st, v, mt.Elem()))
	if i.CommaOk {
		f.tuples[i] = []T{v, {has, "Bool"}}
	} else {
		f.vals[i] = v
	}
}

func (f *frame) doIndexString(i *ssa.Lookup, st *State, pc string) {
	g := f.g
	x := f.val(i.X)
	idx := f.val(i.Index)
	f.panicOb("index", pc, and("(<= 0 "+idx.S+")", "(< "+idx.S+" (blen (val "+x.S+")))"), i.Pos(), "string index out of range")
	f.vals[i] = g.s.def(i.Name(), T{"(at (val " + x.S + ") " + idx.S + ")", "Int"})
	g.s.assumeUnder(pc, and("(<= 0 "+f.vals[i].S+")", "(<= "+f.vals[i].S+" 255)"))
}

// map iteration: an arbitrary not-yet-visited key on every step (ghost visited set).
func (f *frame) doRange(i *ssa.Range, st *State, pc string) {
	g := f.g
	mt, ok := i.X.Type().Underlying().(*types.Map)
	if !ok {
		fail("%s: range over string is outside the subset", f.fn.Name())
	}
	ks := g.mapKeySort(mt)
	h := "iter." + f.prefix + i.Name()
	g.declHeap(h, "(Array "+ks+" Bool)")
	g.writeHeap(st, h, "", "((as const (Array "+ks+" Bool)) false)")
	f.iters[i] = &mapIter{m: f.val(i.X), mt: mt, visited: h}
}

func (f *frame) doNext(i *ssa.Next, st *State, pc string) {
	g := f.g
	it := f.iters[i.Iter]
	if it == nil {
		fail("%s: next on unknown iterator", f.fn.Name())
	}
	mt := it.mt
	ks := g.mapKeySort(mt)
	ok := g.s.decl("it.ok", "Bool")
	k := g.s.decl("it.k", ks)
	vis := g.readHeap(st, it.visited, "")
	has := g.readHeap(st, g.mapHasHeap(mt), it.m.S)
	vals := g.readHeap(st, g.mapValHeap(mt), it.m.S)
	g.s.assumeUnder(pc, imp(ok.S, and("(select "+has+" "+k.S+")", not("(select "+vis+" "+k.S+")"))))
	// exhaustion: every key of the map has been visited; instantiated at the ghost keys of that sort
	for _, gk := range g.ghostTermsOfSort(ks) {
		g.s.assumeUnder(pc, imp(not(ok.S), imp("(select "+has+" "+gk+")", "(select "+vis+" "+gk+")")))
	}
	g.s.assumeUnder(pc, imp(not(ok.S), "(forall ((qk "+ks+")) (! (=> (select "+has+" qk) (select "+vis+" qk)) :pattern ((select "+vis+" qk))))"))
	g.writeHeap(st, it.visited, "", ite(ok.S, "(store "+vis+" "+k.S+" true)", vis))
	g.addInstTerm(ks, k.S)
	kv := k
	if g.sortOf(mt.Key()) == "NB" {
		kv = T{"(mk false " + k.S + ")", "NB"}
	}
	v := g.s.def("it.v", T{"(select " + vals + " " + k.S + ")", g.sortOf(mt.Elem())})
	g.s.assumeUnder(and(pc, ok.S), g.typeInv(st, v, mt.Elem()))
	f.tuples[i] = []T{ok, kv, v}
}

func (g *Gen) ghostTermsOfSort(so string) []string {
	var out []string
	for _, n := range sortedKeys(g.ghostVals) {
		v := g.ghostVals[n]
		if v.So == so {
			out = append(out, v.S)
		}
		if v.So == "NB" && so == "B" {
			out = append(out, "(val "+v.S+")")
		}
	}
	return out
}

// ---------- interfaces and conversions ----------

func (f *frame) makeIface(x T, from, to types.Type, pc string) T {
	g := f.g
	if !isEmptyIface(to) {
		// reference-like dynamic types only
		switch from.Underlying().(type) {
		case *types.Pointer:
			g.s.assumeUnder(pc, imp(not(eq(x.S, "0")), eq("(dyn "+x.S+")", g.tag(from))))
			return T{x.S, "Int"}
		}
		// value types stored in a non-empty interface (e.g. JSON map type as error): opaque id
		id := g.s.decl("ifc", "Int")
		g.s.assume(and("(> "+id.S+" 0)", eq("(dyn "+id.S+")", g.tag(from))))
		return id
	}
	return g.toAny(x, from)
}

func (g *Gen) toAny(x T, from types.Type) T {
	switch x.So {
	case "Bool":
		return T{"(ABool " + x.S + ")", "Any"}
	case "Int":
		switch from.Underlying().(type) {
		case *types.Basic:
			return T{"(AInt " + g.tag(from) + " " + x.S + ")", "Any"}
		case *types.Interface:
			return T{ite(eq(x.S, "0"), "ANil", "(ARef (dyn "+x.S+") "+x.S+")"), "Any"}
		}
		return T{"(ARef " + g.tag(from) + " " + x.S + ")", "Any"}
	case "F64":
		return T{"(AFlt " + g.tag(from) + " " + x.S + ")", "Any"}
	case "NB":
		if isByteSlice(from) {
			return T{"(ABytes " + x.S + ")", "Any"}
		}
		if nt, ok := from.(*types.Named); ok { // named string type
			return T{"(AOther " + g.tag(nt) + " 0)", "Any"}
		}
		return T{"(AStr " + x.S + ")", "Any"}
	case "Slc":
		return T{"(ASlc " + g.tag(from) + " " + x.S + ")", "Any"}
	case "Any":
		return x
	}
	id := g.s.decl("boxed", "Int")
	return T{"(AOther " + g.tag(from) + " " + id.S + ")", "Any"}
}

func (f *frame) changeIface(x T, from, to types.Type) T {
	g := f.g
	_ = g
	if isEmptyIface(to) && !isEmptyIface(from) {
		return g.toAny(x, from)
	}
	return x
}

func (f *frame) convert(x T, from, to types.Type) T {
	g := f.g
	fs, ts := g.sortOf(from), g.sortOf(to)
	switch {
	case fs == "NB" && ts == "NB":
		// string <-> []byte: identity on the value; the result is never nil
		return T{"(mk false (val " + x.S + "))", "NB"}
	case fs == "Int" && ts == "Int":
		tb, _ := to.Underlying().(*types.Basic)
		fb, _ := from.Underlying().(*types.Basic)
		if tb != nil && fb != nil && intWidth(tb) < intWidth(fb) {
			g.warn = append(g.warn, fmt.Sprintf("%s: narrowing conversion %s -> %s treated as identity (A-INT)", funcKey(f.fn), from, to))
		}
		return x
	case fs == "Int" && ts == "F64":
		return T{"(i2f " + x.S + ")", "F64"}
	case fs == "F64" && ts == "Int":
		return T{"(f2i " + x.S + ")", "Int"}
	case fs == "F64" && ts == "F64":
		tb, _ := to.Underlying().(*types.Basic)
		fb, _ := from.Underlying().(*types.Basic)
		if tb != nil && fb != nil && tb.Kind() == types.Float32 && fb.Kind() != types.Float32 {
			return T{"(f32 " + x.S + ")", "F64"}
		}
		return x
	case fs == "Int" && ts == "NB":
		return T{"(mk false (chr " + x.S + "))", "NB"}
	}
	fail("%s: conversion %s -> %s is outside the subset", f.fn.Name(), from, to)
	return T{}
}

func intWidth(b *types.Basic) int {
	switch b.Kind() {
	case types.Int8, types.Uint8:
		return 8
	case types.Int16, types.Uint16:
		return 16
	case types.Int32, types.Uint32:
		return 32
	}
	return 64
}

func (f *frame) doTypeAssert(i *ssa.TypeAssert, st *State, pc string) {
	g := f.g
	x := f.val(i.X)
	to := i.AssertedType
	is := g.s.def("is", T{g.isType(x, i.X.Type(), to), "Bool"}).S
	var get T
	switch x.So {
	case "Int":
		get = x
		if isEmptyIface(to) {
			get = g.toAny(x, i.X.Type())
		}
	case "Any":
		so := g.sortOf(to)
		switch so {
		case "Bool":
			get = T{"(a.b " + x.S + ")", so}
		case "Int":
			if _, ok := to.Underlying().(*types.Basic); ok {
				get = T{"(a.i " + x.S + ")", so}
			} else {
				get = T{"(a.r " + x.S + ")", so}
			}
		case "F64":
			get = T{"(a.f " + x.S + ")", so}
		case "NB":
			if isByteSlice(to) {
				get = T{"(a.y " + x.S + ")", so}
			} else {
				get = T{"(a.s " + x.S + ")", so}
			}
		case "Slc":
			get = T{"(a.sl " + x.S + ")", so}
		case "Any":
			get = x
		default:
			get = g.s.decl("unboxed", so)
		}
	default:
		fail("%s: type assertion on sort %s", f.fn.Name(), x.So)
	}
	if i.CommaOk {
		v := g.s.def(i.Name(), T{ite(is, get.S, g.zero(to).S), get.So})
		g.s.assumeUnder(and(pc, is), g.typeInv(st, v, to))
		f.tuples[i] = []T{v, {is, "Bool"}}
		return
	}
	f.panicOb("assert", pc, is, i.Pos(), "interface conversion: dynamic type is "+typeName(to))
	f.vals[i] = get
	g.s.assumeUnder(pc, g.typeInv(st, get, to))
}

// Deferred calls. Supported shape: `defer func() { ... }()` outside loops. Whether the defer
// statement has been reached on the current path is a Boolean "heap" scalar (merged by ite like
// every other state component); at RunDefers the closure bodies are executed inline, last
// registered first, each under its flag.
type deferRec struct {
	flag string
	mc   *ssa.MakeClosure
	at   *ssa.Defer
}

func (f *frame) deferFlag(d *ssa.Defer) string {
	n := 0
	for _, b := range f.fn.Blocks {
		for _, ins := range b.Instrs {
			if x, ok := ins.(*ssa.Defer); ok {
				if x == d {
					return fmt.Sprintf("%sdefer.%d", f.prefix, n)
				}
				n++
			}
		}
	}
	return ""
}

func (f *frame) initDefers(st *State) {
	for _, b := range f.fn.Blocks {
		for _, ins := range b.Instrs {
			if d, ok := ins.(*ssa.Defer); ok {
				st.heap[f.deferFlag(d)] = f.g.newHV(f.deferFlag(d), "Bool", "false", hvStore)
			}
		}
	}
}

func (f *frame) doDefer(d *ssa.Defer, st *State) {
	mc := f.clos[d.Call.Value]
	if mc == nil || len(d.Call.Args) != 0 || d.Call.IsInvoke() {
		fail("%s: only `defer func() {...}()` is inside the subset", f.fn.Name())
	}
	for _, li := range f.loops {
		if li.body[d.Block()] {
			fail("%s: defer inside a loop is outside the subset", f.fn.Name())
		}
	}
	name := f.deferFlag(d)
	st.heap[name] = f.g.newHV(name, "Bool", "true", hvStore)
	f.defers = append(f.defers, deferRec{name, mc, d})
}

func (f *frame) runDefers(st *State, pc string) {
	g := f.g
	for k := len(f.defers) - 1; k >= 0; k-- {
		d := f.defers[k]
		flag := g.hv(st, d.flag).term
		if flag == "false" {
			continue
		}
		if flag == "true" {
			f.inlineClosureAt(d.mc, nil, st, pc, fmt.Sprintf("defer%d", k))
			continue
		}
		with := st.clone()
		f.inlineClosureAt(d.mc, nil, with, and(pc, flag), fmt.Sprintf("defer%d", k))
		_, nst := g.mergeStates([]edge{{and(pc, flag), with}, {and(pc, not(flag)), st}})
		*st = *nst
	}
}

var reIntLit = regexp.MustCompile(`^(-?\d+|\(- \d+\))$`)

// mulTerm: a product with a literal factor stays linear arithmetic; a product of two symbolic
// integers is the uninterpreted imul (commutative, with 0 and 1 as usual): nonlinear integer
// arithmetic inside quantified invariants made obligations depend on solver luck.
func mulTerm(a, b string) string {
	if reIntLit.MatchString(a) || reIntLit.MatchString(b) {
		return "(* " + a + " " + b + ")"
	}
	return "(imul " + a + " " + b + ")"
}

// divTerm: Go's truncated division by a literal is the defined tdiv / tmod (linear for the
// solvers); by a symbolic divisor it is the uninterpreted utdiv / utmod (the same function of its
// arguments in code and in contracts; no arithmetic fact about it is used).
func divTerm(name, a, b string) string {
	if reIntLit.MatchString(b) {
		return "(" + name + " " + a + " " + b + ")"
	}
	return "(u" + name + " " + a + " " + b + ")"
}

// structPointee: v is a pointer to a struct type.
func structPointee(v ssa.Value) (*types.Struct, types.Type, bool) {
	pt, ok := v.Type().Underlying().(*types.Pointer)
	if !ok {
		return nil, nil, false
	}
	stt, ok := pt.Elem().Underlying().(*types.Struct)
	return stt, pt.Elem(), ok
}
