package main

import (
	"sync"
	"fmt"
	"sort"
	"strings"
)

// T is a typed SMT term. So is the SMT sort; Ty (optional) the Go type it models.
type T struct {
	S  string
	So string
}

func (t T) String() string { return t.S }

// Script accumulates the shared definitions / declarations / guarded assumptions
// of one function's verification condition. Every obligation of the function is
// discharged against the whole script (all assumptions are guarded by the path
// condition under which they were learnt, so later ones are harmless).
type Script struct {
	lines   []string
	n       int
	lits    map[string]string // string literal -> B constant
	litList []string
	dts     map[string]string // generated datatype declarations by sort name
	dtOrder []string
	decls   map[string]bool
	zarrs   map[string][2]string // zero-filled array constants: name -> (element sort, zero term)
	noDef   int                  // > 0: def() leaves terms un-named (canonical texts)
	seenAt  map[string]int       // assertions already emitted (identical instances are dropped) -> line
	onceR   map[string][2]int    // generator-level once-only facts -> their line range
	defs    map[string]string    // body -> name of an existing definition (hash-consing)
	defLine  map[string]int
	defLineN int
	mu       sync.Mutex
}

func newScript() *Script {
	return &Script{lits: map[string]string{}, dts: map[string]string{}, decls: map[string]bool{}, zarrs: map[string][2]string{}}
}

func (s *Script) fresh(p string) string {
	s.n++
	return fmt.Sprintf("%s!%d", sanitize(p), s.n)
}

func sanitize(p string) string {
	var sb strings.Builder
	for _, c := range p {
		switch {
		case c >= 'a' && c <= 'z', c >= 'A' && c <= 'Z', c >= '0' && c <= '9', c == '.', c == '_', c == '$', c == '-':
			sb.WriteRune(c)
		default:
			sb.WriteByte('_')
		}
	}
	if sb.Len() == 0 {
		return "v"
	}
	return sb.String()
}

// def names a compound term so that it is shared rather than duplicated.
func (s *Script) def(p string, t T) T {
	if !strings.HasPrefix(t.S, "(") || len(t.S) < 24 || s.noDef > 0 {
		return t
	}
	if s.defs == nil {
		s.defs = map[string]string{}
	}
	key := t.So + "|" + t.S
	if n, ok := s.defs[key]; ok {
		return T{n, t.So}
	}
	n := s.fresh(p)
	s.defs[key] = n
	s.lines = append(s.lines, fmt.Sprintf("(define-fun %s () %s %s)", n, t.So, t.S))
	return T{n, t.So}
}

func (s *Script) decl(p, so string) T {
	n := s.fresh(p)
	s.lines = append(s.lines, fmt.Sprintf("(declare-const %s %s)", n, so))
	return T{n, so}
}

// declNamed declares a constant with a fixed name once.
func (s *Script) declNamed(n, so string) T {
	if !s.decls[n] {
		s.decls[n] = true
		s.lines = append(s.lines, fmt.Sprintf("(declare-const %s %s)", n, so))
	}
	return T{n, so}
}

func (s *Script) assume(f string) {
	if f == "true" || f == "" {
		return
	}
	s.emit("(assert " + f + ")")
}

func (s *Script) emit(line string) {
	if s.seenAt == nil {
		s.seenAt = map[string]int{}
	}
	if at, ok := s.seenAt[line]; ok {
		// already emitted: leave a reference, so that a slice of the script taken at this point
		// still contains the fact
		s.lines = append(s.lines, fmt.Sprintf("; ref %d %d", at, at+1))
		return
	}
	s.seenAt[line] = len(s.lines)
	s.lines = append(s.lines, line)
}

// hit / rec: a generator-level cache of facts emitted once. hit reports whether the facts for
// key were emitted before and, if so, leaves a reference to them at the current point.
func (s *Script) hit(key string) bool {
	r, ok := s.onceR[key]
	if !ok {
		return false
	}
	if r[1] > r[0] {
		s.lines = append(s.lines, fmt.Sprintf("; ref %d %d", r[0], r[1]))
	}
	return true
}

func (s *Script) rec(key string, start int) {
	if s.onceR == nil {
		s.onceR = map[string][2]int{}
	}
	s.onceR[key] = [2]int{start, len(s.lines)}
}

func (s *Script) assumeUnder(pc, f string) {
	if f == "true" || f == "" {
		return
	}
	if pc == "true" || pc == "" {
		s.assume(f)
		return
	}
	s.emit("(assert (=> " + pc + " " + f + "))")
}

func (s *Script) lit(v string) string {
	if v == "" {
		return "eps"
	}
	if n, ok := s.lits[v]; ok {
		return n
	}
	n := fmt.Sprintf("lit%d", len(s.lits))
	s.lits[v] = n
	s.litList = append(s.litList, v)
	return n
}

// literal declarations: pairwise distinct constants, none equal to eps, with the
// order / prefix / length facts between them stated (they are concrete strings).
func (s *Script) litDecls() string {
	var sb strings.Builder
	names := []string{"eps"}
	for _, v := range s.litList {
		n := s.lits[v]
		sb.WriteString(fmt.Sprintf("(declare-const %s B) ; %q\n", n, v))
		sb.WriteString(fmt.Sprintf("(assert (= (blen %s) %d))\n", n, len(v)))
		if len(v) == 1 {
			sb.WriteString(fmt.Sprintf("(assert (= %s (chr %d)))\n", n, v[0]))
		}
		if len(v) == 2 {
			sb.WriteString(fmt.Sprintf("(assert (= %s (cat (chr %d) (chr %d))))\n", n, v[0], v[1]))
		}
		if len(v) <= 16 {
			for k := 0; k < len(v); k++ {
				sb.WriteString(fmt.Sprintf("(assert (= (at %s %d) %d))\n", n, k, v[k]))
			}
		}
		names = append(names, n)
	}
	if len(names) > 1 {
		sb.WriteString("(assert (distinct " + strings.Join(names, " ") + "))\n")
	}
	for i, a := range s.litList {
		for j, b := range s.litList {
			if i == j {
				continue
			}
			na, nb := s.lits[a], s.lits[b]
			if a <= b {
				sb.WriteString(fmt.Sprintf("(assert (le %s %s))\n", na, nb))
			}
			if strings.HasPrefix(b, a) {
				sb.WriteString(fmt.Sprintf("(assert (pre %s %s))\n", na, nb))
			} else {
				sb.WriteString(fmt.Sprintf("(assert (not (pre %s %s)))\n", na, nb))
			}
		}
	}
	return sb.String()
}

// zeroArr names the all-zero array of an element sort (declared in the prelude:
// with a quantified axiom in the proof encoding, as a constant array in the
// counterexample encoding where the zero term is a value).
func (s *Script) zeroArr(elemSort, zero string) string {
	n := "zarr." + sanitize(elemSort)
	s.zarrs[n] = [2]string{elemSort, zero}
	return n
}

func (s *Script) zarrDecls(strMode bool) string {
	var sb strings.Builder
	for _, n := range sortedKeys(s.zarrs) {
		z := s.zarrs[n]
		if strMode {
			z[1] = strings.ReplaceAll(strings.ReplaceAll(z[1], " eps)", " \"\")"), " eps ", " \"\" ")
			sb.WriteString(fmt.Sprintf("(define-fun %s () (Array Int %s) ((as const (Array Int %s)) %s))\n", n, z[0], z[0], z[1]))
		} else {
			sb.WriteString(fmt.Sprintf("(declare-const %s (Array Int %s))\n(assert (forall ((i Int)) (! (= (select %s i) %s) :pattern ((select %s i)))))\n", n, z[0], n, z[1], n))
		}
	}
	return sb.String()
}

func (s *Script) body() string { return strings.Join(s.lines, "\n") }

// bodyFor assembles the part of the script an obligation can depend on: the lines in its
// ranges (everything emitted up to the program point it belongs to, plus what its own
// translation emitted), closed under the definitions those lines mention. Leaving out
// hypotheses learnt at later program points is sound (fewer assumptions) and keeps queries small.
func (s *Script) bodyFor(ranges [][2]int, seeds ...string) string {
	if len(ranges) == 0 {
		return s.body()
	}
	if s.defLine == nil || s.defLineN != len(s.lines) {
		s.defLine = map[string]int{}
		for k, ln := range s.lines {
			if strings.HasPrefix(ln, "(define-fun ") || strings.HasPrefix(ln, "(declare-const ") || strings.HasPrefix(ln, "(declare-fun ") {
				rest := ln[strings.Index(ln, " ")+1:]
				if j := strings.IndexAny(rest, " )"); j > 0 {
					s.defLine[rest[:j]] = k
				}
			}
		}
		s.defLineN = len(s.lines)
	}
	in := make([]bool, len(s.lines))
	var work []int
	for _, r := range ranges {
		for k := r[0]; k < r[1] && k < len(s.lines); k++ {
			if !in[k] {
				in[k] = true
				work = append(work, k)
			}
		}
	}
	isSym := func(c byte) bool {
		return c >= 'a' && c <= 'z' || c >= 'A' && c <= 'Z' || c >= '0' && c <= '9' || c == '.' || c == '_' || c == '$' || c == '-' || c == '!' || c == '#' || c == '@' || c == '*'
	}
	scanned := 0
	for len(work) > 0 || scanned < len(seeds) {
		var ln string
		if scanned < len(seeds) {
			ln = seeds[scanned]
			scanned++
		} else {
			k := work[len(work)-1]
			work = work[:len(work)-1]
			ln = s.lines[k]
		}
		if strings.HasPrefix(ln, "; ref ") {
			var a, b int
			fmt.Sscanf(ln, "; ref %d %d", &a, &b)
			for k := a; k < b && k < len(s.lines); k++ {
				if !in[k] {
					in[k] = true
					work = append(work, k)
				}
			}
			continue
		}
		for i := 0; i < len(ln); {
			if !isSym(ln[i]) {
				i++
				continue
			}
			j := i
			for j < len(ln) && isSym(ln[j]) {
				j++
			}
			if d, ok := s.defLine[ln[i:j]]; ok && !in[d] {
				in[d] = true
				work = append(work, d)
			}
			i = j
		}
	}
	var sb strings.Builder
	for k, ln := range s.lines {
		if in[k] {
			sb.WriteString(ln)
			sb.WriteByte('\n')
		}
	}
	return sb.String()
}

// ---------- term helpers ----------

func and(xs ...string) string {
	var ys []string
	for _, x := range xs {
		if x == "true" || x == "" {
			continue
		}
		if x == "false" {
			return "false"
		}
		ys = append(ys, x)
	}
	switch len(ys) {
	case 0:
		return "true"
	case 1:
		return ys[0]
	}
	return "(and " + strings.Join(ys, " ") + ")"
}

func or(xs ...string) string {
	var ys []string
	for _, x := range xs {
		if x == "false" || x == "" {
			continue
		}
		if x == "true" {
			return "true"
		}
		ys = append(ys, x)
	}
	switch len(ys) {
	case 0:
		return "false"
	case 1:
		return ys[0]
	}
	return "(or " + strings.Join(ys, " ") + ")"
}

func not(x string) string {
	switch x {
	case "true":
		return "false"
	case "false":
		return "true"
	}
	if strings.HasPrefix(x, "(not ") && balanced(x[5:len(x)-1]) {
		return x[5 : len(x)-1]
	}
	return "(not " + x + ")"
}

func balanced(x string) bool {
	d := 0
	for i, c := range x {
		switch c {
		case '(':
			d++
		case ')':
			d--
			if d == 0 && i != len(x)-1 {
				return false
			}
			if d < 0 {
				return false
			}
		case ' ':
			if d == 0 {
				return false
			}
		}
	}
	return d == 0
}

func imp(a, b string) string {
	if a == "true" {
		return b
	}
	if b == "true" || a == "false" {
		return "true"
	}
	return "(=> " + a + " " + b + ")"
}

func eq(a, b string) string {
	if a == b {
		return "true"
	}
	return "(= " + a + " " + b + ")"
}

func ite(c, a, b string) string {
	if c == "true" || a == b {
		return a
	}
	if c == "false" {
		return b
	}
	return "(ite " + c + " " + a + " " + b + ")"
}

func app(f string, args ...string) string {
	if len(args) == 0 {
		return f
	}
	return "(" + f + " " + strings.Join(args, " ") + ")"
}

func num(i int64) string {
	if i < 0 {
		return fmt.Sprintf("(- %d)", -i)
	}
	return fmt.Sprint(i)
}

func sortedKeys[V any](m map[string]V) []string {
	ks := make([]string, 0, len(m))
	for k := range m {
		ks = append(ks, k)
	}
	sort.Strings(ks)
	return ks
}

// ---------- prelude ----------

const preludeHead = `(set-option :produce-models true)
(set-logic ALL)
`

// Byte strings, proof encoding (abstract sort with the order / prefix axioms T-AX).
const preludeBytesAbs = `(declare-sort B 0)
(declare-fun le  (B B) Bool)
(declare-fun pre (B B) Bool)
(declare-fun cat (B B) B)
(declare-fun blen (B) Int)
(declare-const eps B)
(assert (forall ((x B)) (! (le x x) :pattern ((le x x)))))
(assert (forall ((x B) (y B)) (! (=> (and (le x y) (le y x)) (= x y)) :pattern ((le x y) (le y x)))))
(assert (forall ((x B) (y B) (z B)) (! (=> (and (le x y) (le y z)) (le x z)) :pattern ((le x y) (le y z)))))
(assert (forall ((x B) (y B)) (! (or (le x y) (le y x)) :pattern ((le x y)))))
(assert (forall ((x B)) (! (pre x x) :pattern ((pre x x)))))
(assert (forall ((x B) (y B) (z B)) (! (=> (and (pre x y) (pre y z)) (pre x z)) :pattern ((pre x y) (pre y z)))))
(assert (forall ((x B) (y B)) (! (=> (pre x y) (le x y)) :pattern ((pre x y)))))
(assert (forall ((p B) (q B) (k B)) (! (=> (and (pre p k) (le p q) (le q k)) (pre p q)) :pattern ((pre p k) (le p q) (le q k)))))
(assert (forall ((p B) (q B) (k B)) (! (=> (and (pre p k) (pre q k)) (or (pre p q) (pre q p))) :pattern ((pre p k) (pre q k)))))
(assert (forall ((x B)) (! (pre eps x) :pattern ((pre eps x)))))
(assert (forall ((x B)) (! (le eps x) :pattern ((le eps x)))))
(assert (forall ((x B)) (! (>= (blen x) 0) :pattern ((blen x)))))
(assert (forall ((x B)) (! (=> (= (blen x) 0) (= x eps)) :pattern ((blen x)))))
(assert (= (blen eps) 0))
(assert (forall ((x B)) (! (=> (le x eps) (= x eps)) :pattern ((le x eps)))))
(assert (forall ((x B) (y B)) (! (=> (and (pre x y) (= (blen x) (blen y))) (= x y)) :pattern ((pre x y)))))
(assert (forall ((x B) (y B)) (! (=> (pre x y) (<= (blen x) (blen y))) :pattern ((pre x y)))))
(assert (forall ((x B) (y B)) (! (= (blen (cat x y)) (+ (blen x) (blen y))) :pattern ((cat x y)))))
(assert (forall ((x B) (y B)) (! (pre x (cat x y)) :pattern ((cat x y)))))
(assert (forall ((x B)) (! (= (cat x eps) x) :pattern ((cat x eps)))))
(assert (forall ((x B)) (! (= (cat eps x) x) :pattern ((cat eps x)))))
(assert (forall ((x B) (y B) (z B)) (! (= (cat (cat x y) z) (cat x (cat y z))) :pattern ((cat (cat x y) z)))))
(declare-fun sub (B Int Int) B)
(declare-fun at (B Int) Int)
(declare-fun chr (Int) B)
(assert (forall ((s B) (i Int) (j Int)) (! (=> (and (<= 0 i) (<= i j) (<= j (blen s))) (= (blen (sub s i j)) (- j i))) :pattern ((sub s i j)))))
(assert (forall ((s B) (i Int) (j Int) (k Int)) (! (=> (and (<= 0 i) (<= i j) (<= j (blen s)) (<= 0 k) (< k (- j i))) (= (at (sub s i j) k) (at s (+ i k)))) :pattern ((at (sub s i j) k)))))
(assert (forall ((s B)) (! (= (sub s 0 (blen s)) s) :pattern ((sub s 0 (blen s))))))
(assert (forall ((s B) (a Int) (b Int) (c Int) (d Int)) (! (=> (and (<= 0 a) (<= a b) (<= b (blen s)) (<= 0 c) (<= c d) (<= d (- b a))) (= (sub (sub s a b) c d) (sub s (+ a c) (+ a d)))) :pattern ((sub (sub s a b) c d)))))
(assert (forall ((x B)) (! (=> (= (blen x) 1) (= x (chr (at x 0)))) :pattern ((blen x)))))
(assert (forall ((x B)) (! (=> (= (blen x) 2) (= x (cat (chr (at x 0)) (chr (at x 1))))) :pattern ((blen x)))))
(assert (forall ((s B) (i Int)) (! (=> (and (<= 0 i) (<= i (blen s))) (= (sub s i i) eps)) :pattern ((sub s i i)))))
(assert (forall ((x B) (y B) (k Int)) (! (= (at (cat x y) k) (ite (< k (blen x)) (at x k) (at y (- k (blen x))))) :pattern ((at (cat x y) k)))))
(assert (forall ((s B) (k Int)) (! (=> (and (<= 0 k) (< k (blen s))) (and (<= 0 (at s k)) (<= (at s k) 255))) :pattern ((at s k)))))
(assert (forall ((c Int)) (! (=> (and (<= 0 c) (<= c 255)) (and (= (blen (chr c)) 1) (= (at (chr c) 0) c))) :pattern ((chr c)))))
`

// Byte strings, counterexample encoding (cvc5 strings theory).
const preludeBytesStr = `(define-sort B () String)
(define-fun le ((x String) (y String)) Bool (str.<= x y))
(define-fun pre ((x String) (y String)) Bool (str.prefixof x y))
(define-fun cat ((x String) (y String)) String (str.++ x y))
(define-fun blen ((x String)) Int (str.len x))
(define-fun eps () String "")
(define-fun sub ((s String) (i Int) (j Int)) String (str.substr s i (- j i)))
(define-fun at ((s String) (i Int)) Int (str.to_code (str.at s i)))
(define-fun chr ((c Int)) String (str.from_code c))
`

const preludeCommon = `(declare-datatypes ((NB 0)) (((mk (isnil Bool) (val B)))))
(declare-datatypes ((Slc 0)) (((slc (ptr Int) (off Int) (len_ Int) (snil Bool)))))
(declare-sort F64 0)
(declare-datatypes ((Any 0)) (((ANil) (ABool (a.b Bool)) (AInt (a.it Int) (a.i Int)) (AFlt (a.ft Int) (a.f F64)) (AStr (a.s NB)) (ABytes (a.y NB)) (ARef (a.rt Int) (a.r Int)) (ASlc (a.st Int) (a.sl Slc)) (AOther (a.ot Int) (a.o Int)))))
(declare-fun dyn (Int) Int)
(define-fun kindcode ((x Any)) Int (ite ((_ is ANil) x) 0 (ite ((_ is ABool) x) 1 (ite ((_ is AStr) x) 2 (ite ((_ is ABytes) x) 3 (ite ((_ is AInt) x) (+ 4 (* 10 (a.it x))) (ite ((_ is AFlt) x) (+ 5 (* 10 (a.ft x))) (ite ((_ is ARef) x) (+ 6 (* 10 (a.rt x))) (ite ((_ is ASlc) x) (+ 7 (* 10 (a.st x))) (+ 8 (* 10 (a.ot x))))))))))))
(define-fun cmp ((a B) (b B)) Int (ite (= a b) 0 (ite (le a b) (- 1) 1)))
(define-fun lt ((a B) (b B)) Bool (and (le a b) (not (= a b))))
(declare-const RK Int)
(declare-const IK Int)
(declare-fun fadd (F64 F64) F64)
(declare-fun fsub (F64 F64) F64)
(declare-fun fmul (F64 F64) F64)
(declare-fun fdiv (F64 F64) F64)
(declare-fun fneg (F64) F64)
(declare-fun flt (F64 F64) Bool)
(declare-fun fle (F64 F64) Bool)
(declare-fun feq (F64 F64) Bool)
(assert (forall ((x F64) (y F64)) (! (= (flt (fneg x) (fneg y)) (flt y x)) :pattern ((flt (fneg x) (fneg y))))))
(assert (forall ((x F64) (y F64)) (! (= (feq (fneg x) (fneg y)) (feq x y)) :pattern ((feq (fneg x) (fneg y))))))
(assert (forall ((x F64)) (! (= (fneg (fneg x)) x) :pattern ((fneg (fneg x))))))
(declare-fun i2f (Int) F64)
(declare-fun f2i (F64) Int)
(declare-fun f32 (F64) F64)
(declare-const fzero F64)
(assert (forall ((n Int)) (! (= (feq (i2f n) fzero) (= n 0)) :pattern ((i2f n)))))
(assert (= (i2f 0) fzero))
(assert (forall ((x F64) (y F64)) (! (= (fle x y) (or (flt x y) (feq x y))) :pattern ((fle x y)))))
(define-fun tdiv ((a Int) (b Int)) Int (ite (>= a 0) (ite (> b 0) (div a b) (- (div a (- b)))) (ite (> b 0) (- (div (- a) b)) (div (- a) (- b)))))
(define-fun tmod ((a Int) (b Int)) Int (- a (* b (tdiv a b))))
(declare-fun implements (Int Int) Bool)
; membership of a byte string in the first n elements (from offset o) of an element array
(declare-fun mem ((Array Int NB) Int Int B) Bool)
; (base and step of mem are unfolded by the engine at every use: see memTerm)
(assert (forall ((a (Array Int NB)) (o Int) (n Int) (k B) (j Int) (v NB)) (! (=> (or (< j o) (>= j (+ o n))) (= (mem (store a j v) o n k) (mem a o n k))) :pattern ((mem (store a j v) o n k)))))
(assert (forall ((a (Array Int NB)) (o Int) (n Int) (k B) (j Int)) (! (=> (and (<= o j) (< j (+ o n)) (= (val (select a j)) k)) (mem a o n k)) :pattern ((mem a o n k) (select a j)))))
`
