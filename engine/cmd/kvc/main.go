package main

import (
	"flag"
	"fmt"
	"os"
	"path/filepath"
	"runtime"
	"sort"
	"strings"
	"time"
)

func verifDir() string {
	if d := os.Getenv("KVC_VERIF"); d != "" {
		return d
	}
	return "/verif"
}

func usage() {
	fmt.Fprintln(os.Stderr, `usage:
  kvc check <Cxx> [--tier quick|thorough]   decide one property (writes evidence/<Cxx>.json)
  kvc verify <func>...                      verify single functions (development)
  kvc replay <file>                         re-run a recorded replay
  kvc dump <func>... | list                 inspect the go/ssa form`)
	os.Exit(2)
}

// funcOutcome is the result of verifying one function (after the Houdini rounds).
type funcOutcome struct {
	Key      string
	Spec     *FuncSpec
	Gen      *Gen
	Results  []*Result
	Err      string
	Rounds   int
	Dropped  []string
	GenMs    int64
	SolveMs  int64
	NInstr   int
	Warnings []string
}

func runGen(p *Program, sp *Specs, fs *FuncSpec, dropped map[string]bool, want string) (g *Gen, err error) {
	g = newGen(p, sp, dropped)
	g.wantProp = want
	defer func() {
		if r := recover(); r != nil {
			if ee, ok := r.(engineErr); ok {
				err = ee
				return
			}
			panic(r)
		}
	}()
	if fs.Kind == "lemma" {
		g.genLemma(fs)
	} else {
		g.genFunc(fs)
	}
	return g, nil
}

func verifyOne(p *Program, sp *Specs, fs *FuncSpec, want, outDir string, workers, quick, full int) *funcOutcome {
	out := &funcOutcome{Key: fs.Key, Spec: fs}
	dropped := map[string]bool{}
	dir := filepath.Join(outDir, sanitize(fs.Key))
	os.RemoveAll(dir)
	for round := 0; round < 8; round++ {
		t0 := time.Now()
		g, err := runGen(p, sp, fs, dropped, want)
		out.GenMs += time.Since(t0).Milliseconds()
		out.Rounds = round + 1
		if err != nil {
			out.Err = err.Error()
			out.Gen = g
			return out
		}
		out.Gen = g
		var autos, rest []*Oblig
		for _, o := range g.obs {
			if o.Auto {
				autos = append(autos, o)
			} else if want == "C06" && !strings.HasPrefix(o.Kind, "panic") && !o.Cover && !(o.Kind == "requires" && len(o.Props) == 0) && !hasProp(o.Props, "C06") {
				// the panic-freedom view: run-time checks and the untagged preconditions at call
				// sites (a callee's panic freedom rests on them: an unchecked type assertion
				// behind a `same kind` precondition is only as safe as its callers). The other
				// obligations belong to (and are discharged under) the properties that own them.
			} else {
				rest = append(rest, o)
			}
		}
		t1 := time.Now()
		ares := solveAll(g, autos, dir, workers, 2, 5)
		newDrop := false
		for _, r := range ares {
			if !r.OK() && !dropped[r.Ob.AutoID] {
				dropped[r.Ob.AutoID] = true
				newDrop = true
			}
		}
		if newDrop {
			out.SolveMs += time.Since(t1).Milliseconds()
			continue
		}
		out.Results = solveAll(g, rest, dir, workers, quick, full)
		retrySlow(g, rest, out.Results, dir, workers, full, 3*full)
		out.SolveMs += time.Since(t1).Milliseconds()
		break
	}
	for d := range dropped {
		out.Dropped = append(out.Dropped, d)
	}
	sort.Strings(out.Dropped)
	if fn := p.Funcs[fs.Key]; fn != nil {
		for _, b := range fn.Blocks {
			out.NInstr += len(b.Instrs)
		}
	}
	out.Warnings = out.Gen.warn
	return out
}

func main() {
	if len(os.Args) < 2 {
		usage()
	}
	switch os.Args[1] {
	case "dump", "list":
		p, err := loadProgram(repoDir())
		if err != nil {
			fmt.Fprintln(os.Stderr, err)
			os.Exit(2)
		}
		if os.Args[1] == "list" {
			for _, n := range p.funcNames() {
				fmt.Println(n)
			}
			return
		}
		for _, n := range os.Args[2:] {
			fn := p.Funcs[n]
			if fn == nil {
				fmt.Fprintln(os.Stderr, "no function", n)
				continue
			}
			dumpFunc(fn)
		}
	case "verify":
		fl := flag.NewFlagSet("verify", flag.ExitOnError)
		wantP := fl.String("p", "", "verify as under `check <property>` (property-scoped clauses)")
		quick := fl.Int("t", 10, "solver timeout (s)")
		verbose := fl.Bool("v", false, "list every obligation")
		models := fl.Bool("m", false, "ask for a concrete model of every failed obligation")
		keep := fl.String("out", "/tmp/kvc-out", "directory for SMT files")
		fl.Parse(os.Args[2:])
		p, err := loadProgram(repoDir())
		if err != nil {
			fmt.Fprintln(os.Stderr, err)
			os.Exit(2)
		}
		sp, err := loadSpecs(repoDir(), verifDir())
		if err != nil {
			fmt.Fprintln(os.Stderr, err)
			os.Exit(2)
		}
		bad := 0
		for _, key := range fl.Args() {
			fs := sp.Funcs[key]
			if fs == nil {
				fs = sp.Lemmas[key]
			}
			if fs == nil {
				fmt.Println("no contract for", key)
				bad++
				continue
			}
			o := verifyOne(p, sp, fs, *wantP, *keep, runtime.NumCPU(), 3, *quick)
			bad += printOutcome(o, *verbose, *models)
		}
		if bad > 0 {
			os.Exit(1)
		}
	case "check":
		os.Exit(cmdCheck(os.Args[2:]))
	case "replay":
		os.Exit(cmdReplay(os.Args[2:]))
	default:
		usage()
	}
}

func printOutcome(o *funcOutcome, verbose, models bool) int {
	bad := 0
	if o.Err != "" {
		fmt.Printf("%-50s ENGINE ERROR: %s\n", o.Key, o.Err)
		return 1
	}
	nok := 0
	for _, r := range o.Results {
		if r.OK() {
			nok++
			if verbose {
				fmt.Printf("   ok   %-70s %s %s %dms\n", r.Ob.Name, r.Verdict, r.Solver, r.Ms)
			}
		} else {
			bad++
			fmt.Printf("   FAIL %-70s %s %s %dms  %s\n        %s  [%s]\n", r.Ob.Name, r.Verdict, r.Solver, r.Ms, r.File, r.Ob.Clause, r.Ob.Pos)
			if r.Verdict == "error" {
				fmt.Println("        " + strings.ReplaceAll(strings.TrimSpace(r.Output), "\n", "\n        "))
			} else if !r.Ob.Cover && models {
				ps, note := concreteModel(o.Gen, r, 10)
				fmt.Println("        " + strings.ReplaceAll(note, "\n", "\n        "))
				for _, p := range ps {
					fmt.Printf("          %-28s = %s\n", p.Name, p.Val)
				}
			}
		}
	}
	fmt.Printf("%-50s %d/%d discharged (rounds=%d gen=%dms solve=%dms dropped=%d)\n", o.Key, nok, len(o.Results), o.Rounds, o.GenMs, o.SolveMs, len(o.Dropped))
	if verbose {
		for _, d := range o.Dropped {
			fmt.Println("   dropped candidate:", d)
		}
		for _, w := range o.Warnings {
			fmt.Println("   warning:", w)
		}
		for _, w := range o.Gen.havocked {
			fmt.Println("   havocked:", w)
		}
	}
	return bad
}

// retrySlow asks again, with more time, the obligations that were left undecided (timeout /
// unknown / a solver that died): a verdict must not depend on how busy the machine was.
func retrySlow(g *Gen, obs []*Oblig, res []*Result, dir string, workers, quick, full int) {
	var again []*Oblig
	var idx []int
	for k, r := range res {
		if r == nil || r.OK() || r.Ob.Cover || r.Verdict == "sat" || knownFindingNames[r.Ob.Name] {
			continue
		}
		again = append(again, obs[k])
		idx = append(idx, k)
	}
	if len(again) == 0 || len(again) > 6 {
		return
	}
	w := workers
	if w > 4 {
		w = 4
	}
	r2 := solveAll(g, again, filepath.Join(dir, "retry"), w, quick, full)
	for j, r := range r2 {
		if r.OK() || r.Verdict == "sat" {
			res[idx[j]] = r
		}
	}
}

// knownFindingNames: obligations listed in known_findings.json (they fail by definition; asking
// again with more time would only slow the check down).
var knownFindingNames = map[string]bool{}

func hasProp(ps []string, p string) bool {
	for _, x := range ps {
		if x == p {
			return true
		}
	}
	return false
}
