package main

import (
	"bytes"
	"context"
	"encoding/json"
	"fmt"
	"go/types"
	"os"
	"os/exec"
	"path/filepath"
	"strconv"
	"strings"
	"time"

	"golang.org/x/tools/go/ssa"
)

// Replay: a concrete model of a failed obligation is turned into an in-package
// Go test that builds the model's inputs, calls the REAL function and evaluates
// the executable twin of the function's postconditions (generated from the
// contract text). The test is injected with `go test -overlay`; nothing is
// written into the repository.

type replayGen struct {
	g      *Gen
	vals   map[string]string // probe name -> model value
	sb     strings.Builder   // statements building the inputs
	objs   map[string]string // "Type#ref" -> variable
	n      int
	fail   string // why a replay could not be generated
	olds   []string
	helper map[string]bool
	defs   map[string]string // generated Go twins of contract defines
	tagTy  map[int]types.Type
}

type gx struct {
	code string
	so   string     // contract-level sort
	ty   types.Type // Go type if known
}

func (rg *replayGen) bad(format string, a ...any) {
	if rg.fail == "" {
		rg.fail = fmt.Sprintf(format, a...)
	}
}

func goTypeText(t types.Type) string {
	return types.TypeString(t, func(p *types.Package) string {
		if p.Name() == "kvql" {
			return ""
		}
		return p.Name()
	})
}

func smtInt(v string) (int64, bool) {
	v = strings.TrimSpace(v)
	if strings.HasPrefix(v, "(-") {
		v = strings.TrimSpace(strings.TrimSuffix(strings.TrimPrefix(v, "(-"), ")"))
		i, err := strconv.ParseInt(v, 10, 64)
		return -i, err == nil
	}
	i, err := strconv.ParseInt(v, 10, 64)
	return i, err == nil
}

// smtStr decodes an SMT-LIB string literal into the bytes it denotes.
func smtStr(v string) (string, bool) {
	v = strings.TrimSpace(v)
	if len(v) < 2 || v[0] != '"' || v[len(v)-1] != '"' {
		return "", false
	}
	v = v[1 : len(v)-1]
	var out []byte
	for i := 0; i < len(v); i++ {
		switch {
		case v[i] == '"' && i+1 < len(v) && v[i+1] == '"':
			out = append(out, '"')
			i++
		case strings.HasPrefix(v[i:], `\u{`):
			j := strings.Index(v[i:], "}")
			c, err := strconv.ParseUint(v[i+3:i+j], 16, 32)
			if err != nil || c > 255 {
				return "", false
			}
			out = append(out, byte(c))
			i += j
		default:
			out = append(out, v[i])
		}
	}
	return string(out), true
}

func (rg *replayGen) val(name string) (string, bool) {
	v, ok := rg.vals[name]
	return v, ok
}

// build returns a Go expression for the model's value of the probe `name` of type ty.
func (rg *replayGen) build(name string, ty types.Type, depth int) string {
	g := rg.g
	if depth > 6 {
		rg.bad("model too deep at %s", name)
		return "nil"
	}
	switch u := ty.Underlying().(type) {
	case *types.Basic:
		switch {
		case u.Info()&types.IsBoolean != 0:
			v, _ := rg.val(name)
			return fmt.Sprintf("%s(%v)", goTypeText(ty), v == "true")
		case u.Info()&types.IsInteger != 0:
			v, ok := rg.val(name)
			i, ok2 := smtInt(v)
			if !ok || !ok2 {
				rg.bad("no integer value for %s", name)
				return "0"
			}
			return fmt.Sprintf("%s(%d)", goTypeText(ty), i)
		case u.Info()&types.IsString != 0:
			v, _ := rg.val(name + ".val")
			s, ok := smtStr(v)
			if !ok {
				rg.bad("no string value for %s", name)
			}
			return fmt.Sprintf("%s(%q)", goTypeText(ty), s)
		case u.Info()&types.IsFloat != 0:
			rg.bad("float input %s", name)
			return "0"
		}
	case *types.Slice:
		if isByteSlice(ty) {
			if v, _ := rg.val(name + ".isnil"); v == "true" {
				return "[]byte(nil)"
			}
			v, _ := rg.val(name + ".val")
			s, ok := smtStr(v)
			if !ok {
				rg.bad("no bytes value for %s", name)
			}
			return fmt.Sprintf("[]byte(%q)", s)
		}
		if v, _ := rg.val(name + ".nil"); v == "true" {
			return goTypeText(ty) + "(nil)"
		}
		lv, _ := rg.val(name + ".len")
		n, ok := smtInt(lv)
		if !ok || n < 0 || n > maxProbeElems {
			rg.bad("slice %s has length %s in the model (replay builds at most %d elements)", name, lv, maxProbeElems)
			return "nil"
		}
		var es []string
		for i := int64(0); i < n; i++ {
			es = append(es, rg.build(fmt.Sprintf("%s[%d]", name, i), u.Elem(), depth+1))
		}
		return goTypeText(ty) + "{" + strings.Join(es, ", ") + "}"
	case *types.Pointer:
		v, ok := rg.val(name)
		ref, ok2 := smtInt(v)
		if !ok || !ok2 {
			rg.bad("no reference value for %s", name)
			return "nil"
		}
		if ref == 0 {
			return "(" + goTypeText(ty) + ")(nil)"
		}
		st, isStruct := u.Elem().Underlying().(*types.Struct)
		if !isStruct {
			rg.bad("pointer to non-struct input %s", name)
			return "nil"
		}
		key := fmt.Sprintf("%s#%d", goTypeText(u.Elem()), ref)
		if v, ok := rg.objs[key]; ok {
			return v
		}
		rg.n++
		vn := fmt.Sprintf("obj%d", rg.n)
		rg.objs[key] = vn
		fmt.Fprintf(&rg.sb, "\t%s := &%s{}\n", vn, goTypeText(u.Elem()))
		for i := 0; i < st.NumFields(); i++ {
			f := st.Field(i)
			if _, ok := rg.val(name + "." + f.Name()); !ok && !rg.hasPrefix(name+"."+f.Name()) {
				continue // field not read by the verified code: leave it zero
			}
			if unsupportedInput(f.Type()) {
				continue
			}
			fmt.Fprintf(&rg.sb, "\t%s.%s = %s\n", vn, f.Name(), rg.build(name+"."+f.Name(), f.Type(), depth+1))
		}
		return vn
	case *types.Struct:
		var fs []string
		for i := 0; i < u.NumFields(); i++ {
			f := u.Field(i)
			if unsupportedInput(f.Type()) || !rg.hasPrefix(name+"."+f.Name()) {
				continue
			}
			fs = append(fs, f.Name()+": "+rg.build(name+"."+f.Name(), f.Type(), depth+1))
		}
		return goTypeText(ty) + "{" + strings.Join(fs, ", ") + "}"
	case *types.Interface:
		if u.NumMethods() == 0 {
			rg.bad("input %s of type any", name)
			return "nil"
		}
		v, ok := rg.val(name)
		ref, ok2 := smtInt(v)
		if !ok || !ok2 {
			rg.bad("no reference value for %s", name)
			return "nil"
		}
		if ref == 0 {
			return goTypeText(ty) + "(nil)"
		}
		dv, _ := rg.val(name + ".dyn")
		tag, _ := smtInt(dv)
		dt := rg.tagTy[int(tag)]
		if dt == nil {
			rg.bad("interface input %s has a dynamic type outside the package's known types (tag %d)", name, tag)
			return "nil"
		}
		if !types.Implements(dt, u) {
			rg.bad("model gives %s the dynamic type %s, which does not implement %s (spurious model)", name, dt, ty)
			return "nil"
		}
		return goTypeText(ty) + "(" + rg.build(name+".("+goTypeText(dt)+")", dt, depth+1) + ")"
	}
	_ = g
	rg.bad("input %s of unsupported type %s", name, ty)
	return "nil"
}

func (rg *replayGen) hasPrefix(p string) bool {
	for k := range rg.vals {
		if k == p || strings.HasPrefix(k, p+".") || strings.HasPrefix(k, p+"[") {
			return true
		}
	}
	return false
}

func unsupportedInput(t types.Type) bool {
	switch u := t.Underlying().(type) {
	case *types.Signature, *types.Chan, *types.Map:
		return true
	case *types.Interface:
		return u.NumMethods() == 0
	}
	return false
}

// ---------- contract expression -> Go ----------

func goSortType(so string) string {
	switch so {
	case "Bool":
		return "bool"
	case "Int":
		return "int"
	case "B":
		return "string"
	case "NB":
		return "[]byte"
	}
	return ""
}

type goEnv struct {
	rg   *replayGen
	vars map[string]gx
	old  bool
}

func (e *goEnv) str(x gx) string { // as Go string (byte content)
	switch x.so {
	case "B":
		return x.code
	case "NB":
		return "string(" + x.code + ")"
	}
	e.rg.bad("value %s is not a byte string", x.code)
	return `""`
}

func (e *goEnv) tr(x *CE) gx {
	rg := e.rg
	g := rg.g
	switch x.Op {
	case "num":
		return gx{x.Name, "Int", nil}
	case "str":
		return gx{strconv.Quote(x.Name), "B", nil}
	case "ident":
		switch x.Name {
		case "true", "false":
			return gx{x.Name, "Bool", nil}
		case "nil":
			return gx{"nil", "Nil", nil}
		case "eps":
			return gx{`""`, "B", nil}
		}
		if v, ok := e.vars[x.Name]; ok {
			return v
		}
		if o := g.P.Pkg.Types.Scope().Lookup(x.Name); o != nil {
			switch o := o.(type) {
			case *types.Const:
				return gx{x.Name, g.sortOf(o.Type()), o.Type()}
			case *types.Var:
				return gx{x.Name, g.sortOf(o.Type()), o.Type()}
			}
		}
		rg.bad("replay: unknown identifier %s", x.Name)
		return gx{"nil", "Int", nil}
	case "old":
		n := *e
		n.old = true
		v := n.tr(x.Args[0])
		name := fmt.Sprintf("old%d", len(rg.olds))
		rg.olds = append(rg.olds, fmt.Sprintf("%s := %s", name, v.code))
		v.code = name
		return v
	case "field":
		b := e.tr(x.Args[0])
		if b.ty == nil {
			rg.bad("replay: field of untyped value")
			return gx{"nil", "Int", nil}
		}
		var st *types.Struct
		if pt, ok := b.ty.Underlying().(*types.Pointer); ok {
			st, _ = pt.Elem().Underlying().(*types.Struct)
		} else {
			st, _ = b.ty.Underlying().(*types.Struct)
		}
		for i := 0; st != nil && i < st.NumFields(); i++ {
			if st.Field(i).Name() == x.Name {
				ft := st.Field(i).Type()
				return gx{b.code + "." + x.Name, g.sortOf(ft), ft}
			}
		}
		rg.bad("replay: no field %s", x.Name)
		return gx{"nil", "Int", nil}
	case "index":
		b, i := e.tr(x.Args[0]), e.tr(x.Args[1])
		if b.ty != nil {
			switch u := b.ty.Underlying().(type) {
			case *types.Slice:
				return gx{b.code + "[" + i.code + "]", g.sortOf(u.Elem()), u.Elem()}
			case *types.Map:
				k := i.code
				if g.sortOf(u.Key()) == "NB" {
					k = goTypeText(u.Key()) + "(" + e.str(i) + ")"
				}
				return gx{b.code + "[" + k + "]", g.sortOf(u.Elem()), u.Elem()}
			}
		}
		rg.bad("replay: index of %s", b.code)
		return gx{"nil", "Int", nil}
	case "cast":
		b := e.tr(x.Args[0])
		ty, so := g.resolveType(x.Name)
		return gx{b.code + ".(" + goTypeText(ty) + ")", so, ty}
	case "un":
		a := e.tr(x.Args[0])
		if x.Name == "!" {
			return gx{"!(" + a.code + ")", "Bool", nil}
		}
		return gx{"-(" + a.code + ")", "Int", a.ty}
	case "bin":
		return e.bin(x)
	case "call":
		return e.call(x)
	case "forall", "exists":
		return e.quant(x)
	}
	rg.bad("replay: unsupported contract construct %s", x.Op)
	return gx{"false", "Bool", nil}
}

func (e *goEnv) bin(x *CE) gx {
	op := x.Name
	a := e.tr(x.Args[0])
	b := e.tr(x.Args[1])
	switch op {
	case "&&", "||":
		return gx{"(" + a.code + " " + op + " " + b.code + ")", "Bool", nil}
	case "==>":
		return gx{"(!(" + a.code + ") || " + b.code + ")", "Bool", nil}
	case "<==>":
		return gx{"((" + a.code + ") == (" + b.code + "))", "Bool", nil}
	case "==", "!=":
		var c string
		switch {
		case a.so == "Nil" && b.so == "Nil":
			c = "true"
		case b.so == "Nil":
			c = "(" + a.code + " == nil)"
		case a.so == "Nil":
			c = "(" + b.code + " == nil)"
		case a.so == "NB" || a.so == "B" || b.so == "NB" || b.so == "B":
			c = "(" + e.str(a) + " == " + e.str(b) + ")"
		default:
			c = "(" + a.code + " == " + b.code + ")"
			if a.so == "Int" && b.so == "Int" {
				c = "(int64(" + a.code + ") == int64(" + b.code + "))"
			}
		}
		if op == "!=" {
			c = "!" + c
		}
		return gx{c, "Bool", nil}
	case "<", "<=", ">", ">=":
		if a.so == "NB" || a.so == "B" || b.so == "NB" || b.so == "B" {
			return gx{"(" + e.str(a) + " " + op + " " + e.str(b) + ")", "Bool", nil}
		}
		return gx{"(int64(" + a.code + ") " + op + " int64(" + b.code + "))", "Bool", nil}
	case "+", "-", "*", "/", "%":
		if a.so == "NB" || a.so == "B" {
			return gx{"(" + e.str(a) + " + " + e.str(b) + ")", "B", nil}
		}
		return gx{"(int(" + a.code + ") " + op + " int(" + b.code + "))", "Int", nil}
	}
	e.rg.bad("replay: operator %s", op)
	return gx{"false", "Bool", nil}
}

func (e *goEnv) quant(x *CE) gx {
	rg := e.rg
	if len(x.Vars) != 1 {
		rg.bad("replay: quantifier with several binders")
		return gx{"false", "Bool", nil}
	}
	iv := x.Vars[0].Name
	_, so := rg.g.resolveType(x.Vars[0].Sort)
	if so != "Int" {
		rg.bad("replay: quantifier over %s is not executable", so)
		return gx{"false", "Bool", nil}
	}
	// forall i :: 0 <= i && i < N ==> P        exists i :: 0 <= i && i < N && P
	var lo, hi, body *CE
	b := x.Args[0]
	if x.Op == "forall" && b.Op == "bin" && b.Name == "==>" {
		g := b.Args[0]
		if g.Op == "bin" && g.Name == "&&" {
			lo, hi, body = g.Args[0], g.Args[1], b.Args[1]
		}
	}
	if x.Op == "exists" {
		var conj []*CE
		var flat func(c *CE)
		flat = func(c *CE) {
			if c.Op == "bin" && c.Name == "&&" {
				flat(c.Args[0])
				flat(c.Args[1])
				return
			}
			conj = append(conj, c)
		}
		flat(b)
		if len(conj) >= 3 {
			lo, hi = conj[0], conj[1]
			body = conj[2]
			for _, c := range conj[3:] {
				body = &CE{Op: "bin", Name: "&&", Args: []*CE{body, c}}
			}
		}
	}
	if lo == nil || !(lo.Op == "bin" && lo.Name == "<=" && lo.Args[1].Op == "ident" && lo.Args[1].Name == iv) || !(hi.Op == "bin" && hi.Name == "<" && hi.Args[0].Op == "ident" && hi.Args[0].Name == iv) {
		rg.bad("replay: quantifier without an explicit finite range is not executable")
		return gx{"false", "Bool", nil}
	}
	l, h := e.tr(lo.Args[0]), e.tr(hi.Args[1])
	n := *e
	n.vars = map[string]gx{}
	for k, v := range e.vars {
		n.vars[k] = v
	}
	n.vars[iv] = gx{iv, "Int", nil}
	p := n.tr(body)
	if x.Op == "forall" {
		return gx{fmt.Sprintf("func() bool { for %s := int(%s); %s < int(%s); %s++ { if !(%s) { return false } }; return true }()", iv, l.code, iv, h.code, iv, p.code), "Bool", nil}
	}
	return gx{fmt.Sprintf("func() bool { for %s := int(%s); %s < int(%s); %s++ { if %s { return true } }; return false }()", iv, l.code, iv, h.code, iv, p.code), "Bool", nil}
}

func (e *goEnv) call(x *CE) gx {
	rg := e.rg
	g := rg.g
	name := x.Args[0].Name
	args := x.Args[1:]
	a := func(i int) gx { return e.tr(args[i]) }
	switch name {
	case "len":
		v := a(0)
		return gx{"len(" + v.code + ")", "Int", nil}
	case "isnil":
		return gx{"(" + a(0).code + " == nil)", "Bool", nil}
	case "val":
		return gx{e.str(a(0)), "B", nil}
	case "pre":
		return gx{"strings.HasPrefix(" + e.str(a(1)) + ", " + e.str(a(0)) + ")", "Bool", nil}
	case "le":
		return gx{"(" + e.str(a(0)) + " <= " + e.str(a(1)) + ")", "Bool", nil}
	case "lt":
		return gx{"(" + e.str(a(0)) + " < " + e.str(a(1)) + ")", "Bool", nil}
	case "cat":
		return gx{"(" + e.str(a(0)) + " + " + e.str(a(1)) + ")", "B", nil}
	case "blen":
		return gx{"len(" + e.str(a(0)) + ")", "Int", nil}
	case "ite":
		c, t, f := a(0), a(1), a(2)
		gt := goSortType(t.so)
		if t.ty != nil {
			gt = goTypeText(t.ty)
		}
		if gt == "" {
			rg.bad("replay: ite of sort %s", t.so)
			return gx{"false", "Bool", nil}
		}
		return gx{fmt.Sprintf("func() %s { if %s { return %s }; return %s }()", gt, c.code, t.code, f.code), t.so, t.ty}
	case "member":
		s, n, k := a(0), a(1), a(2)
		rg.helper["member"] = true
		return gx{"kvcMember(" + s.code + ", int(" + n.code + "), " + e.str(k) + ")", "Bool", nil}
	case "pair":
		kt, so := g.resolveType("KVPair")
		return gx{"KVPair{Key: []byte(" + e.str(a(0)) + "), Value: []byte(" + e.str(a(1)) + ")}", so, kt}
	case "is":
		v := a(0)
		ty, _ := g.resolveType(args[1].Name)
		return gx{"func() bool { _, ok := any(" + v.code + ").(" + goTypeText(ty) + "); return ok }()", "Bool", nil}
	case "as":
		v := a(0)
		ty, so := g.resolveType(args[1].Name)
		return gx{"any(" + v.code + ").(" + goTypeText(ty) + ")", so, ty}
	case "has":
		m, k := a(0), a(1)
		mt, ok := m.ty.Underlying().(*types.Map)
		if !ok {
			break
		}
		kc := k.code
		if g.sortOf(mt.Key()) == "NB" {
			kc = goTypeText(mt.Key()) + "(" + e.str(k) + ")"
		}
		return gx{"func() bool { _, ok := " + m.code + "[" + kc + "]; return ok }()", "Bool", nil}
	}
	if d, ok := g.Specs.Defines[name]; ok {
		fn := rg.defineTwin(d)
		var as []string
		for i, p := range d.Params {
			v := a(i)
			_, so := g.resolveType(p.Type)
			if so == "B" {
				as = append(as, e.str(v))
			} else {
				as = append(as, v.code)
			}
		}
		ty, so := g.resolveType(defRet(d))
		return gx{fn + "(" + strings.Join(as, ", ") + ")", so, ty}
	}
	if _, ok := g.Specs.SpecFuns[name]; ok {
		// an uninterpreted spec function needs a hand-written executable twin (replay/twins.go.txt)
		if replayTwins[name] {
			var as []string
			for i := range args {
				v := a(i)
				if v.so == "NB" || v.so == "B" {
					as = append(as, e.str(v))
				} else {
					as = append(as, v.code)
				}
			}
			sf := g.Specs.SpecFuns[name]
			return gx{"kvcSpec_" + name + "(" + strings.Join(as, ", ") + ")", sf.Ret, nil}
		}
	}
	if fn, ok := g.P.Funcs[name]; ok {
		var as []string
		for i := range args {
			as = append(as, a(i).code)
		}
		rt := fn.Signature.Results().At(0).Type()
		return gx{name + "(" + strings.Join(as, ", ") + ")", g.sortOf(rt), rt}
	}
	rg.bad("replay: %s() has no executable twin", name)
	return gx{"false", "Bool", nil}
}

func defRet(d *FuncSpec) string {
	if d.RetSort != "" {
		return d.RetSort
	}
	return "Bool"
}

// defineTwin emits a Go function for a contract define (once).
func (rg *replayGen) defineTwin(d *FuncSpec) string {
	fn := "kvcDef_" + d.Key
	if _, ok := rg.defs[d.Key]; ok {
		return fn
	}
	rg.defs[d.Key] = "" // reserve
	g := rg.g
	vars := map[string]gx{}
	var ps []string
	for _, p := range d.Params {
		ty, so := g.resolveType(p.Type)
		gt := goSortType(so)
		if ty != nil {
			gt = goTypeText(ty)
		}
		if gt == "" {
			rg.bad("replay: define %s has a parameter of sort %s", d.Key, so)
			gt = "int"
		}
		ps = append(ps, p.Name+" "+gt)
		vars[p.Name] = gx{p.Name, so, ty}
	}
	rty, rso := g.resolveType(defRet(d))
	rt := goSortType(rso)
	if rty != nil {
		rt = goTypeText(rty)
	}
	body := (&goEnv{rg: rg, vars: vars}).tr(d.Body)
	code := body.code
	if rso == "B" {
		code = (&goEnv{rg: rg}).str(body)
	}
	rg.defs[d.Key] = fmt.Sprintf("func %s(%s) %s { return %s }\n", fn, strings.Join(ps, ", "), rt, code)
	return fn
}

// replayTwins lists the uninterpreted spec functions that have a hand-written
// executable twin in /verif/replay/twins.go.txt.
var replayTwins = map[string]bool{"holds": true}

const maxProbeElems = 4

// ---------- assembling and running the test ----------

func replayOnRealCode(o *funcOutcome, r *Result, ps []probe) (confirmed bool, transcript, src string) {
	defer func() {
		if rec := recover(); rec != nil {
			if ee, ok := rec.(engineErr); ok {
				confirmed, transcript = false, "replay generator: "+ee.msg
				return
			}
			panic(rec)
		}
	}()
	g := o.Gen
	fn := g.P.Funcs[o.Key]
	if fn == nil {
		return false, "no function to replay", ""
	}
	rg := &replayGen{g: g, vals: map[string]string{}, objs: map[string]string{}, helper: map[string]bool{}, defs: map[string]string{}, tagTy: map[int]types.Type{}}
	for _, p := range ps {
		rg.vals[p.Name] = p.Val
	}
	rg.tagTy = g.tagTypes()
	fs := o.Spec
	vars := map[string]gx{}
	var callArgs []string
	for k, p := range fn.Params {
		name := fs.Params[k].Name
		if unsupportedInput(p.Type()) {
			rg.bad("parameter %s of type %s cannot be built from a model", name, p.Type())
		}
		code := rg.build(name, p.Type(), 0)
		vn := "p_" + sanitize(name)
		fmt.Fprintf(&rg.sb, "\tvar %s %s = %s\n", vn, goTypeText(p.Type()), code)
		vars[name] = gx{vn, g.sortOf(p.Type()), p.Type()}
		callArgs = append(callArgs, vn)
	}
	_, ens, _, ghosts, rename := g.clauses(fs)
	for _, gp := range ghosts {
		ty, so := g.resolveType(gp.Sort)
		vn := "g_" + sanitize(gp.Name)
		switch {
		case so == "B":
			v, _ := rg.val("ghost " + gp.Name)
			s, ok := smtStr(v)
			if !ok {
				rg.bad("no model value for ghost %s", gp.Name)
			}
			fmt.Fprintf(&rg.sb, "\t%s := %q\n", vn, s)
		case so == "Int" && ty == nil:
			v, _ := rg.val("ghost " + gp.Name)
			i, _ := smtInt(v)
			fmt.Fprintf(&rg.sb, "\t%s := %d\n", vn, i)
		case ty != nil:
			fmt.Fprintf(&rg.sb, "\tvar %s %s = %s\n", vn, goTypeText(ty), rg.build("ghost "+gp.Name, ty, 0))
		default:
			rg.bad("ghost %s of sort %s", gp.Name, so)
		}
		fmt.Fprintf(&rg.sb, "\t_ = %s\n", vn)
		vars[gp.Name] = gx{vn, so, ty}
	}
	// globals the verified code reads
	var restore strings.Builder
	for _, p := range ps {
		if strings.HasPrefix(p.Name, "G.") {
			gn := strings.TrimPrefix(p.Name, "G.")
			if i, ok := smtInt(p.Val); ok && p.Sort == "Int" {
				fmt.Fprintf(&rg.sb, "\tsaved_%s := %s\n\t%s = %d\n", gn, gn, gn, i)
				fmt.Fprintf(&restore, "\t\t%s = saved_%s\n", gn, gn)
			} else if p.Sort == "Bool" {
				fmt.Fprintf(&rg.sb, "\tsaved_%s := %s\n\t%s = %s\n", gn, gn, gn, p.Val)
				fmt.Fprintf(&restore, "\t\t%s = saved_%s\n", gn, gn)
			}
		}
	}
	// the call
	names := g.resultNames(fs, fn.Signature.Results().Len())
	var lhs []string
	for k, nm := range names {
		vn := "r_" + sanitize(nm)
		lhs = append(lhs, vn)
		rt := fn.Signature.Results().At(k).Type()
		vars[nm] = gx{vn, g.sortOf(rt), rt}
	}
	for ifn, own := range rename {
		if v, ok := vars[own]; ok {
			if _, clash := vars[ifn]; !clash {
				vars[ifn] = v
			}
		}
	}
	call := ""
	if fn.Signature.Recv() != nil {
		call = callArgs[0] + "." + fn.Name() + "(" + strings.Join(callArgs[1:], ", ") + ")"
	} else {
		call = fn.Name() + "(" + strings.Join(callArgs, ", ") + ")"
	}
	// which clauses to evaluate: the failed one for an ensures obligation, all of them otherwise
	var checks []string
	env := &goEnv{rg: rg, vars: vars}
	isPanic := strings.HasPrefix(r.Ob.Kind, "panic")
	for k, c := range ens {
		lbl := clauseLabel(c, k)
		if r.Ob.Kind == "ensures" && !strings.Contains(r.Ob.Name, "#ensures."+lbl+"@") {
			continue
		}
		saved := rg.fail
		v := env.tr(c.E)
		if rg.fail != saved {
			// this clause has no executable twin: skip it (for the failed clause itself that ends the replay)
			if r.Ob.Kind == "ensures" {
				break
			}
			rg.fail = saved
			continue
		}
		checks = append(checks, fmt.Sprintf("\tif !(%s) {\n\t\tfmt.Println(\"REPLAY: postcondition violated: %s\")\n\t\tviolated = true\n\t}\n", v.code, strings.ReplaceAll(strconv.Quote(c.Text), `"`, "")))
	}
	if rg.fail != "" {
		return false, "replay not generated: " + rg.fail, ""
	}
	if len(checks) == 0 && !isPanic {
		return false, "replay not generated: no clause of this contract has an executable twin", ""
	}
	var t strings.Builder
	t.WriteString("package kvql\n\nimport (\n\t\"fmt\"\n\t\"strings\"\n\t\"testing\"\n)\n\nvar _ = strings.HasPrefix\n\n")
	t.WriteString("// generated by kvc from the model of " + r.Ob.Name + "\n")
	t.WriteString("func TestKvcReplay(t *testing.T) {\n")
	t.WriteString(rg.sb.String())
	for _, o := range rg.olds {
		t.WriteString("\t" + o + "\n")
	}
	t.WriteString("\tviolated := false\n")
	t.WriteString("\tfunc() {\n\t\tdefer func() {\n" + restore.String() + "\t\t\tif rec := recover(); rec != nil {\n\t\t\t\tfmt.Printf(\"REPLAY: the real function panicked: %v\\n\", rec)\n\t\t\t\tviolated = true\n\t\t\t\tpanicked = true\n\t\t\t}\n\t\t}()\n")
	if len(lhs) > 0 {
		t.WriteString("\t\t" + strings.Join(lhs, ", ") + " = " + call + "\n")
	} else {
		t.WriteString("\t\t" + call + "\n")
	}
	t.WriteString("\t}()\n")
	t.WriteString("\tif !panicked {\n")
	for _, c := range checks {
		t.WriteString(strings.ReplaceAll(c, "\n\t", "\n\t\t"))
	}
	t.WriteString("\t}\n")
	t.WriteString("\tif violated {\n\t\tfmt.Println(\"REPLAY-CONFIRMED\")\n\t} else {\n\t\tfmt.Println(\"REPLAY-NOT-CONFIRMED\")\n\t}\n}\n\n")
	// result variables are declared at package level so the deferred recover can see partial state
	var decl strings.Builder
	decl.WriteString("var panicked bool\n")
	for k, vn := range lhs {
		decl.WriteString("var " + vn + " " + goTypeText(fn.Signature.Results().At(k).Type()) + "\n")
	}
	t.WriteString(decl.String())
	for _, n := range sortedKeys(rg.defs) {
		t.WriteString(rg.defs[n])
	}
	if rg.helper["member"] {
		t.WriteString("func kvcMember[T ~string | ~[]byte](s []T, n int, k string) bool {\n\tfor i := 0; i < n && i < len(s); i++ {\n\t\tif string(s[i]) == k {\n\t\t\treturn true\n\t\t}\n\t}\n\treturn false\n}\n")
	}
	src = t.String()
	ok, out := runReplayTest(src)
	return ok, out, src
}

func (g *Gen) tagTypes() map[int]types.Type {
	// tags are numbered by sorted type name (see tagDecls); recover the types by name
	var ns []string
	for n := range g.tags {
		ns = append(ns, n)
	}
	sortStrings(ns)
	out := map[int]types.Type{}
	for i, n := range ns {
		if strings.HasPrefix(n, "*") {
			if o := g.P.Pkg.Types.Scope().Lookup(n[1:]); o != nil {
				if tn, ok := o.(*types.TypeName); ok {
					out[i+1] = types.NewPointer(tn.Type())
				}
			}
		}
	}
	return out
}

func sortStrings(s []string) {
	for i := 1; i < len(s); i++ {
		for j := i; j > 0 && s[j] < s[j-1]; j-- {
			s[j], s[j-1] = s[j-1], s[j]
		}
	}
}

// runReplayTest injects the test into the real package with -overlay and runs it.
func runReplayTest(src string) (bool, string) {
	dir, err := os.MkdirTemp(filepath.Join(verifDir(), "out"), "replay-")
	if err != nil {
		os.MkdirAll(filepath.Join(verifDir(), "out"), 0o755)
		dir, err = os.MkdirTemp(filepath.Join(verifDir(), "out"), "replay-")
		if err != nil {
			return false, err.Error()
		}
	}
	defer os.RemoveAll(dir)
	tf := filepath.Join(dir, "kvc_replay_test.go")
	os.WriteFile(tf, []byte(src), 0o644)
	repl := map[string]string{filepath.Join(repoDir(), "kvc_replay_test.go"): tf}
	for _, h := range []string{"memstore.go.txt", "twins.go.txt"} {
		hp := filepath.Join(verifDir(), "replay", h)
		if _, err := os.Stat(hp); err == nil {
			repl[filepath.Join(repoDir(), "kvc_"+strings.TrimSuffix(h, ".go.txt")+"_test.go")] = hp
		}
	}
	ov, _ := json.Marshal(map[string]any{"Replace": repl})
	ovf := filepath.Join(dir, "overlay.json")
	os.WriteFile(ovf, ov, 0o644)
	ctx, cancel := context.WithTimeout(context.Background(), 120*time.Second)
	defer cancel()
	cmd := exec.CommandContext(ctx, "bash", "-c", "cd "+repoDir()+" && go test -mod=mod -overlay "+ovf+" -vet=off -count=1 -timeout 60s -v -run '^TestKvcReplay$' .")
	cmd.Env = append(os.Environ(), "GOFLAGS=-mod=mod", "GOPROXY=off", "GOSUMDB=off", "GOTOOLCHAIN=local")
	var out bytes.Buffer
	cmd.Stdout, cmd.Stderr = &out, &out
	cmd.Run()
	o := out.String()
	if len(o) > 6000 {
		o = o[:6000] + "\n...[truncated]"
	}
	return strings.Contains(o, "REPLAY-CONFIRMED"), o
}

var _ = ssa.NaiveForm
