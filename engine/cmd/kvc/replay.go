package main

// replayOnRealCode turns a concrete model into an in-package Go test and runs it
// on the real package through `go test -overlay`.
func replayOnRealCode(o *funcOutcome, r *Result, ps []probe) (bool, string, string) {
	return false, "no replay generator for this obligation yet", ""
}

func runReplayTest(src string) (bool, string) { return false, "" }
