package main

import (
	"context"
	"fmt"
	"go/types"
	"os"
	"strings"
)

// Concrete-model pass: a failed obligation is re-emitted with byte strings as
// SMT strings (cvc5) and without the quantified axioms; a model of that query is
// a candidate counterexample, which only counts once replayed on the real code.

type probe struct {
	Name string `json:"name"`
	Term string `json:"-"`
	Sort string `json:"sort"`
	Val  string `json:"value"`
}

// probes lists the terms that describe the function's inputs in the entry state.
func (g *Gen) probes() []probe {
	var ps []probe
	seen := map[string]bool{}
	add := func(name, term, so string) {
		if !seen[name] {
			seen[name] = true
			ps = append(ps, probe{Name: name, Term: term, Sort: so})
		}
	}
	h0 := func(h string) (string, bool) {
		if _, ok := g.heapSo[h]; !ok {
			return "", false
		}
		return g.heapInit(h).term, true
	}
	var walk func(name string, v T, ty types.Type, depth int)
	walk = func(name string, v T, ty types.Type, depth int) {
		if depth > 3 {
			return
		}
		switch v.So {
		case "Bool", "Int", "F64", "B", "Any":
			add(name, v.S, v.So)
		case "NB":
			add(name+".isnil", "(isnil "+v.S+")", "Bool")
			add(name+".val", "(val "+v.S+")", "B")
		case "Slc":
			add(name+".len", "(len_ "+v.S+")", "Int")
			add(name+".nil", "(snil "+v.S+")", "Bool")
			if ty == nil {
				return
			}
			sl, ok := ty.Underlying().(*types.Slice)
			if !ok {
				return
			}
			hn := "E." + sanitize(typeName(sl.Elem()))
			if g.sortOf(sl.Elem()) == "NB" {
				hn = "E.NB"
			}
			if e0, ok := h0(hn); ok {
				for i := 0; i < maxProbeElems; i++ {
					el := T{fmt.Sprintf("(select (select %s (ptr %s)) (+ (off %s) %d))", e0, v.S, v.S, i), g.sortOf(sl.Elem())}
					walk(fmt.Sprintf("%s[%d]", name, i), el, sl.Elem(), depth+1)
				}
			}
		default:
			if strings.HasPrefix(v.So, "S.") && ty != nil {
				st := ty.Underlying().(*types.Struct)
				for i := 0; i < st.NumFields(); i++ {
					fv := T{app(structName(v.So)+"."+st.Field(i).Name(), v.S), g.sortOf(st.Field(i).Type())}
					walk(name+"."+st.Field(i).Name(), fv, st.Field(i).Type(), depth+1)
				}
			}
		}
		if ty == nil {
			return
		}
		switch u := ty.Underlying().(type) {
		case *types.Pointer:
			if st, ok := u.Elem().Underlying().(*types.Struct); ok {
				nm := "anon"
				if nt, ok := u.Elem().(*types.Named); ok {
					nm = nt.Obj().Name()
				}
				for i := 0; i < st.NumFields(); i++ {
					if hn, ok := h0(fieldHeap(nm, st.Field(i).Name())); ok {
						fv := T{"(select " + hn + " " + v.S + ")", g.sortOf(st.Field(i).Type())}
						walk(name+"."+st.Field(i).Name(), fv, st.Field(i).Type(), depth+1)
					}
				}
			}
		case *types.Interface:
			if u.NumMethods() > 0 {
				add(name, v.S, "Int")
				add(name+".dyn", "(dyn "+v.S+")", "Int")
				for _, tn := range sortedKeys(g.tags) {
					if !strings.HasPrefix(tn, "*") {
						continue
					}
					o := g.P.Pkg.Types.Scope().Lookup(tn[1:])
					if o == nil {
						continue
					}
					pt := types.NewPointer(o.Type())
					if types.Implements(pt, u) {
						walk(name+".("+tn+")", v, pt, depth+1)
					}
				}
			}
		}
	}
	for _, n := range sortedKeys(g.paramVals) {
		walk(n, g.paramVals[n].T, g.paramVals[n].Ty, 0)
	}
	for _, n := range sortedKeys(g.ghostVals) {
		walk("ghost "+n, g.ghostVals[n].T, g.ghostVals[n].Ty, 0)
	}
	for _, h := range sortedKeys(g.heapSo) {
		if strings.HasPrefix(h, "G.") {
			add(h, g.heapInit(h).term, g.heapSo[h])
		}
	}
	return ps
}

func dropQuantified(s string) string {
	var out []string
	for _, ln := range strings.Split(s, "\n") {
		if strings.Contains(ln, "(forall ") {
			continue
		}
		out = append(out, ln)
	}
	return strings.Join(out, "\n")
}

// concreteModel asks cvc5 (strings theory) for a model of a failed obligation.
func concreteModel(g *Gen, r *Result, secs int) ([]probe, string) {
	ps := g.probes()
	var terms []string
	for _, p := range ps {
		terms = append(terms, p.Term)
	}
	gv := ""
	if len(terms) > 0 {
		gv = "(get-value (" + strings.Join(terms, " ") + "))\n"
	}
	q := obligQuery(dropQuantified(g.preludeText(true)), dropQuantified(g.s.bodyFor(r.Ob.Ranges, r.Ob.PC, r.Ob.Goal)), r.Ob, gv)
	file := strings.TrimSuffix(r.File, ".smt2") + ".str.smt2"
	os.WriteFile(file, []byte(q), 0o644)
	sc := solverCfg{"cvc5-strings", func(f string, s int) []string {
		return []string{"cvc5", "--strings-exp", fmt.Sprintf("--tlimit=%d", s*1000), f}
	}}
	v, out := runSolver(context.Background(), sc, file, secs)
	if v != "sat" {
		return nil, "cvc5-strings: " + v + "\n" + firstLines(out, 6)
	}
	vals := parseGetValue(out)
	for i := range ps {
		if i < len(vals) {
			ps[i].Val = vals[i]
		}
	}
	return ps, "cvc5-strings: sat"
}

func firstLines(s string, n int) string {
	ls := strings.Split(strings.TrimSpace(s), "\n")
	if len(ls) > n {
		ls = ls[:n]
	}
	return strings.Join(ls, "\n")
}

// parseGetValue extracts the values of a (get-value ...) answer, in order.
func parseGetValue(out string) []string {
	i := strings.Index(out, "((")
	if i < 0 {
		return nil
	}
	s := out[i:]
	// s = "((t1 v1) (t2 v2) ...)": split top-level pairs
	var vals []string
	pos := 1
	for pos < len(s) {
		for pos < len(s) && (s[pos] == ' ' || s[pos] == '\n') {
			pos++
		}
		if pos >= len(s) || s[pos] != '(' {
			break
		}
		end := sexpEnd(s, pos)
		pair := s[pos+1 : end]
		// first element is the term, the rest the value
		tEnd := 0
		if pair[0] == '(' {
			tEnd = sexpEnd(pair, 0) + 1
		} else {
			tEnd = strings.IndexAny(pair, " \n")
		}
		vals = append(vals, strings.TrimSpace(pair[tEnd:]))
		pos = end + 1
	}
	return vals
}

func sexpEnd(s string, i int) int {
	d := 0
	inStr := false
	for j := i; j < len(s); j++ {
		c := s[j]
		if inStr {
			if c == '"' {
				if j+1 < len(s) && s[j+1] == '"' {
					j++
					continue
				}
				inStr = false
			}
			continue
		}
		switch c {
		case '"':
			inStr = true
		case '(':
			d++
		case ')':
			d--
			if d == 0 {
				return j
			}
		}
	}
	return len(s) - 1
}
