package main

import (
	"sort"
	"fmt"
	"go/constant"
	"go/types"
	"strconv"
	"strings"

	"golang.org/x/tools/go/ssa"
)

// CV is a contract-level value: an SMT term with (optionally) the Go type it models.
type CV struct {
	T
	Ty types.Type
}

// Env is the environment a contract expression is evaluated in.
type Env struct {
	g     *Gen
	st    *State // current state
	old   *State // entry state (old(...))
	vars  map[string]CV
	cells map[string]*ssa.Alloc // source-variable cells (loop invariants, asserts)
	pc    string                // guard for side assumptions (mem unfoldings, frames)
	hyp   bool                  // translating a hypothesis (true) or a goal (false)
	insts []string              // extra instantiation terms for universally used quantifiers
	depth int
	qd    int // quantifier nesting depth
	noReg bool
	frame *frame // the activation whose variables the clause may name (loop invariants)
	iterHeap string // visited-set heap of the map iterator of the enclosing loop
	noQuant bool
	axiomUse bool // translating a `use forall ... :: axiom(...)`: axiom names denote their bodies
	guards []string // antecedents enclosing the current position (for registered forall facts)
}

// forallFact is an assumed "forall i Int :: body": instantiated lazily at index terms.
type forallFact struct {
	sort  string
	guard string
	outer string
	inst  func(t string) string
	done  map[string]bool
}

// addInstTerm records a term of interest (an index the code reads, an iterator key,
// a witness) and instantiates every remembered universal fact of that sort at it.
func (g *Gen) addInstTerm(so, t string) {
	for _, u := range g.instTerms[so] {
		if u == t {
			return
		}
	}
	g.instTerms[so] = append(g.instTerms[so], t)
	for k := 0; k < len(g.foralls); k++ {
		if g.foralls[k].sort == so {
			g.instOne(g.foralls[k], t)
		}
	}
}

func (g *Gen) instOne(ff *forallFact, t string) {
	if ff.done == nil {
		ff.done = map[string]bool{}
	}
	okey := fmt.Sprintf("ff%p|%s", ff, t)
	if ff.done[t] {
		g.s.hit(okey)
		return
	}
	ff.done[t] = true
	start := len(g.s.lines)
	g.s.rec(okey, start) // (re-entrancy: an empty range until the instance is complete)
	g.instGen++
	body := ff.inst(t)
	g.instGen--
	g.s.assumeUnder(ff.guard, imp(ff.outer, body))
	g.s.rec(okey, start)
}

// addInstTermGen adds a term produced while translating contracts; terms produced by
// instantiating facts at such terms are followed for two generations only.
func (g *Gen) addInstTermGen(so, t string) {
	if g.instGen > 2 || len(g.instTerms[so]) > 80 || len(t) > 200 {
		return
	}
	g.addInstTerm(so, t)
}

func (g *Gen) instForalls(t string) { g.addInstTerm("Int", t) }

func (e *Env) with(vars map[string]CV) *Env {
	n := *e
	n.vars = map[string]CV{}
	for k, v := range e.vars {
		n.vars[k] = v
	}
	for k, v := range vars {
		n.vars[k] = v
	}
	return &n
}

func (e *Env) inState(st *State) *Env {
	n := *e
	n.st = st
	return &n
}

var smtSorts = map[string]bool{"Ref": true, "Int": true, "Bool": true, "B": true, "NB": true, "Any": true, "Slc": true, "F64": true}

// resolveType maps a type text of the contract language to (Go type, SMT sort).
func (g *Gen) resolveType(text string) (types.Type, string) {
	text = strings.TrimSpace(text)
	if smtSorts[text] || strings.HasPrefix(text, "(") || strings.HasPrefix(text, "S.") {
		return nil, text
	}
	if strings.HasPrefix(text, "*") {
		t, _ := g.resolveType(text[1:])
		if t == nil {
			fail("cannot resolve type %q", text)
		}
		pt := types.NewPointer(t)
		return pt, g.sortOf(pt)
	}
	if strings.HasPrefix(text, "[]") {
		t, _ := g.resolveType(text[2:])
		if t == nil {
			fail("cannot resolve type %q", text)
		}
		st := types.NewSlice(t)
		return st, g.sortOf(st)
	}
	if o := types.Universe.Lookup(text); o != nil {
		if tn, ok := o.(*types.TypeName); ok {
			return tn.Type(), g.sortOf(tn.Type())
		}
	}
	if o := g.P.Pkg.Types.Scope().Lookup(text); o != nil {
		if tn, ok := o.(*types.TypeName); ok {
			return tn.Type(), g.sortOf(tn.Type())
		}
	}
	fail("cannot resolve type %q", text)
	return nil, ""
}

func (g *Gen) cv(s, so string, ty types.Type) CV { return CV{T{s, so}, ty} }

// tr translates a contract expression; pos is the polarity of the position.
func (e *Env) tr(x *CE, pos bool) CV {
	g := e.g
	switch x.Op {
	case "num":
		return g.cv(x.Name, "Int", nil)
	case "str":
		return g.cv("(mk false "+g.s.lit(x.Name)+")", "NB", types.Typ[types.String])
	case "ident":
		return e.ident(x.Name)
	case "old":
		return e.inState(e.old).tr(x.Args[0], pos)
	case "field":
		return e.field(e.tr(x.Args[0], pos), x.Name)
	case "index":
		b := e.tr(x.Args[0], pos)
		i := e.tr(x.Args[1], pos)
		return e.index(b, i)
	case "cast":
		b := e.tr(x.Args[0], pos)
		ty, so := g.resolveType(x.Name)
		if b.So == "Any" {
			switch so {
			case "Int":
				if _, ok := ty.Underlying().(*types.Pointer); ok {
					return g.cv("(a.r "+b.S+")", "Int", ty)
				}
				return g.cv("(a.i "+b.S+")", "Int", ty)
			case "Bool":
				return g.cv("(a.b "+b.S+")", "Bool", ty)
			case "F64":
				return g.cv("(a.f "+b.S+")", "F64", ty)
			case "NB":
				if isByteSlice(ty) {
					return g.cv("(a.y "+b.S+")", "NB", ty)
				}
				return g.cv("(a.s "+b.S+")", "NB", ty)
			case "Slc":
				return g.cv("(a.sl "+b.S+")", "Slc", ty)
			}
			fail("cast of Any to %s unsupported", x.Name)
		}
		return g.cv(b.S, so, ty)
	case "un":
		a := e.tr(x.Args[0], !pos && x.Name == "!" || pos && x.Name != "!")
		if x.Name == "!" {
			e.want(a, "Bool", x)
			return g.cv(not(a.S), "Bool", nil)
		}
		if a.So == "F64" {
			return g.cv("(fneg "+a.S+")", "F64", a.Ty)
		}
		return g.cv("(- "+a.S+")", "Int", a.Ty)
	case "bin":
		return e.bin(x, pos)
	case "call":
		return e.call(x, pos)
	case "forall", "exists":
		return e.quant(x, pos)
	}
	fail("contract expression %s: unsupported node %s", x, x.Op)
	return CV{}
}

func (e *Env) want(v CV, so string, x *CE) {
	if v.So != so {
		fail("contract expression %s: expected %s, got %s", x, so, v.So)
	}
}

func (e *Env) ident(n string) CV {
	g := e.g
	switch n {
	case "true", "false":
		return g.cv(n, "Bool", nil)
	case "nil":
		return g.cv("nil", "Nil", nil)
	case "eps":
		return g.cv("eps", "B", nil)
	case "fzero":
		return g.cv("fzero", "F64", nil)
	case "RK", "IK":
		return g.cv(n, "Int", nil)
	}
	if v, ok := e.vars[n]; ok {
		return v
	}
	if e.cells != nil {
		if c, ok := e.cells[n]; ok {
			et := c.Type().Underlying().(*types.Pointer).Elem()
			if c.Heap && e.frame != nil {
				// a variable captured by a closure lives in a heap box
				if ref, ok := e.frame.vals[c]; ok {
					if _, isStruct := et.Underlying().(*types.Struct); !isStruct {
						return CV{T{g.readHeap(e.st, g.boxHeapOf(et), ref.S), g.sortOf(et)}, et}
					}
				}
			}
			v, live := e.st.cells[c]
			if !live {
				fail("contract names variable %q which is not live at this point", n)
			}
			return CV{v, et}
		}
	}
	if gt, ok := g.Specs.GhostVar[n]; ok {
		ty, so := g.resolveType(gt)
		h := "ghost." + n
		g.declHeap(h, so)
		return g.cv(g.readHeap(e.st, h, ""), so, ty)
	}
	if o := g.P.Pkg.Types.Scope().Lookup(n); o != nil {
		switch o := o.(type) {
		case *types.Const:
			return g.constVal(o.Val(), o.Type())
		case *types.Var:
			h := "G." + n
			g.declHeap(h, g.sortOf(o.Type()))
			return g.cv(g.readHeap(e.st, h, ""), g.sortOf(o.Type()), o.Type())
		}
	}
	fail("contract names unknown identifier %q", n)
	return CV{}
}

func (g *Gen) constVal(v constant.Value, t types.Type) CV {
	switch v.Kind() {
	case constant.Bool:
		return g.cv(fmt.Sprint(constant.BoolVal(v)), "Bool", t)
	case constant.Int:
		i, ok := constant.Int64Val(v)
		if !ok {
			u, _ := constant.Uint64Val(v)
			return g.cv(strconv.FormatUint(u, 10), "Int", t)
		}
		if b, ok := t.Underlying().(*types.Basic); ok && b.Info()&types.IsFloat != 0 {
			return g.cv(g.floatConst(float64(i)), "F64", t)
		}
		return g.cv(num(i), "Int", t)
	case constant.String:
		return g.cv("(mk false "+g.s.lit(constant.StringVal(v))+")", "NB", t)
	case constant.Float:
		f, _ := constant.Float64Val(v)
		if b, ok := t.Underlying().(*types.Basic); ok && b.Info()&types.IsInteger != 0 {
			return g.cv(num(int64(f)), "Int", t)
		}
		return g.cv(g.floatConst(f), "F64", t)
	}
	fail("unsupported constant %s", v)
	return CV{}
}

func (g *Gen) floatConst(f float64) string {
	if f == 0 {
		return "fzero"
	}
	if f == float64(int64(f)) {
		return "(i2f " + num(int64(f)) + ")"
	}
	n := "fconst." + sanitize(strconv.FormatFloat(f, 'g', -1, 64))
	g.s.declNamed(n, "F64")
	return n
}

func (e *Env) field(b CV, name string) CV {
	g := e.g
	if b.Ty == nil {
		if strings.HasPrefix(b.So, "S.") {
			st := g.structs[structName(b.So)]
			for i := 0; st != nil && i < st.NumFields(); i++ {
				if st.Field(i).Name() == name {
					return g.cv(app(structName(b.So)+"."+name, b.S), g.sortOf(st.Field(i).Type()), st.Field(i).Type())
				}
			}
		}
		fail("field .%s of untyped contract value %s", name, b.S)
	}
	if pt, ok := b.Ty.Underlying().(*types.Pointer); ok {
		st, ok := pt.Elem().Underlying().(*types.Struct)
		if !ok {
			fail("field .%s of %s", name, b.Ty)
		}
		for i := 0; i < st.NumFields(); i++ {
			if st.Field(i).Name() == name {
				h, ft := g.fieldHeapOf(pt.Elem(), i)
				v := T{g.readHeap(e.st, h, b.S), g.sortOf(ft)}
				g.s.assumeUnder(e.pc, g.typeInv(e.st, v, ft))
				return CV{v, ft}
			}
		}
		fail("type %s has no field %s", b.Ty, name)
	}
	if st, ok := b.Ty.Underlying().(*types.Struct); ok {
		so := g.sortOf(b.Ty)
		for i := 0; i < st.NumFields(); i++ {
			if st.Field(i).Name() == name {
				return g.cv(app(structName(so)+"."+name, b.S), g.sortOf(st.Field(i).Type()), st.Field(i).Type())
			}
		}
	}
	fail("cannot select .%s from %s (%s)", name, b.S, b.Ty)
	return CV{}
}

func (e *Env) index(b, i CV) CV {
	g := e.g
	if b.Ty == nil {
		fail("index of untyped contract value %s", b.S)
	}
	switch u := b.Ty.Underlying().(type) {
	case *types.Slice:
		if b.So != "Slc" {
			fail("indexing byte strings is not supported in contracts (%s)", b.S)
		}
		h := g.elemHeapOf(u.Elem())
		arr := g.readHeap(e.st, h, "(ptr "+b.S+")")
		if g.s.noDef == 0 {
			// positions a contract reads are also positions the remembered universal facts are used at
			if g.instGen == 0 {
				// (the absolute position only for reads of the contract text itself, not for
				// positions reached by instantiating a universal fact)
				g.addInstTermGen("Int", "(+ (off "+b.S+") "+i.S+")")
			}
			g.addInstTermGen("Int", i.S)
		}
		v := T{"(select " + arr + " (+ (off " + b.S + ") " + i.S + "))", g.sortOf(u.Elem())}
		g.s.assumeUnder(e.pc, g.typeInv(e.st, v, u.Elem()))
		return CV{v, u.Elem()}
	case *types.Map:
		hv := g.mapValHeap(u)
		k := e.coerce(i, g.mapKeySort(u))
		mv := g.cv("(select "+g.readHeap(e.st, hv, b.S)+" "+k.S+")", g.sortOf(u.Elem()), u.Elem())
		// a value stored in a map is a well-formed value of its type (references and slices point
		// at objects that exist in the state the map is read in)
		has := "(select " + g.readHeap(e.st, g.mapHasHeap(u), b.S) + " " + k.S + ")"
		g.s.assumeUnder(e.pc, imp(has, g.typeInv(e.st, mv.T, u.Elem())))
		return mv
	}
	fail("cannot index %s", b.Ty)
	return CV{}
}

func (g *Gen) mapKeySort(m *types.Map) string {
	so := g.sortOf(m.Key())
	if so == "NB" {
		return "B"
	}
	return so
}

func (g *Gen) mapHasHeap(m *types.Map) string {
	n := "Mh." + sanitize(typeName(m))
	g.declHeap(n, "(Array Int (Array "+g.mapKeySort(m)+" Bool))")
	return n
}

func (g *Gen) mapValHeap(m *types.Map) string {
	n := "Mv." + sanitize(typeName(m))
	g.declHeap(n, "(Array Int (Array "+g.mapKeySort(m)+" "+g.sortOf(m.Elem())+"))")
	return n
}

func (e *Env) coerce(v CV, so string) CV {
	if v.So == so {
		return v
	}
	switch {
	case v.So == "NB" && so == "B":
		return e.g.cv("(val "+v.S+")", "B", nil)
	case v.So == "B" && so == "NB":
		return e.g.cv("(mk false "+v.S+")", "NB", nil)
	case v.So == "Nil":
		switch so {
		case "Int":
			return e.g.cv("0", "Int", nil)
		case "NB":
			return e.g.cv("(mk true eps)", "NB", nil)
		case "Slc":
			return e.g.cv("(slc 0 0 0 true)", "Slc", nil)
		case "Any":
			return e.g.cv("ANil", "Any", nil)
		}
	}
	fail("cannot use %s (%s) as %s", v.S, v.So, so)
	return CV{}
}

func (e *Env) bin(x *CE, pos bool) CV {
	g := e.g
	op := x.Name
	switch op {
	case "&&", "||":
		a := e.tr(x.Args[0], pos)
		en := e
		if op == "||" { // a || b: inside b we may assume !a
			c := *e
			c.guards = append(append([]string{}, e.guards...), not(a.S))
			en = &c
		}
		b := en.tr(x.Args[1], pos)
		e.want(a, "Bool", x.Args[0])
		e.want(b, "Bool", x.Args[1])
		if op == "&&" {
			return g.cv(and(a.S, b.S), "Bool", nil)
		}
		return g.cv(or(a.S, b.S), "Bool", nil)
	case "==>":
		a := e.tr(x.Args[0], !pos)
		en := *e
		en.guards = append(append([]string{}, e.guards...), a.S)
		b := en.tr(x.Args[1], pos)
		e.want(a, "Bool", x.Args[0])
		e.want(b, "Bool", x.Args[1])
		return g.cv(imp(a.S, b.S), "Bool", nil)
	case "<==>":
		en := *e
		en.noQuant = true
		a, b := en.tr(x.Args[0], pos), en.tr(x.Args[1], pos)
		e.want(a, "Bool", x.Args[0])
		e.want(b, "Bool", x.Args[1])
		return g.cv(eq(a.S, b.S), "Bool", nil)
	}
	a, b := e.tr(x.Args[0], pos), e.tr(x.Args[1], pos)
	switch op {
	case "==", "!=":
		r := e.equal(a, b, x)
		if op == "!=" {
			r = not(r)
		}
		return g.cv(r, "Bool", nil)
	case "<", "<=", ">", ">=":
		if a.So == "NB" || a.So == "B" || b.So == "NB" || b.So == "B" {
			a, b = e.coerce(a, "B"), e.coerce(b, "B")
			switch op {
			case "<":
				return g.cv("(lt "+a.S+" "+b.S+")", "Bool", nil)
			case "<=":
				return g.cv("(le "+a.S+" "+b.S+")", "Bool", nil)
			case ">":
				return g.cv("(lt "+b.S+" "+a.S+")", "Bool", nil)
			default:
				return g.cv("(le "+b.S+" "+a.S+")", "Bool", nil)
			}
		}
		if a.So == "F64" {
			switch op {
			case "<":
				return g.cv("(flt "+a.S+" "+b.S+")", "Bool", nil)
			case "<=":
				return g.cv("(fle "+a.S+" "+b.S+")", "Bool", nil)
			case ">":
				return g.cv("(flt "+b.S+" "+a.S+")", "Bool", nil)
			default:
				return g.cv("(fle "+b.S+" "+a.S+")", "Bool", nil)
			}
		}
		e.want(a, "Int", x.Args[0])
		e.want(b, "Int", x.Args[1])
		return g.cv("("+op+" "+a.S+" "+b.S+")", "Bool", nil)
	case "+", "-", "*":
		if a.So == "NB" || a.So == "B" {
			if op != "+" {
				fail("operator %s on strings in %s", op, x)
			}
			a, b = e.coerce(a, "B"), e.coerce(b, "B")
			return g.cv("(cat "+a.S+" "+b.S+")", "B", nil)
		}
		if a.So == "F64" {
			f := map[string]string{"+": "fadd", "-": "fsub", "*": "fmul"}[op]
			return g.cv("("+f+" "+a.S+" "+b.S+")", "F64", a.Ty)
		}
		e.want(a, "Int", x.Args[0])
		e.want(b, "Int", x.Args[1])
		if op == "*" {
			return g.cv(mulTerm(a.S, b.S), "Int", a.Ty)
		}
		return g.cv("("+op+" "+a.S+" "+b.S+")", "Int", a.Ty)
	case "/":
		e.want(a, "Int", x.Args[0])
		return g.cv(divTerm("tdiv", a.S, b.S), "Int", a.Ty)
	case "%":
		e.want(a, "Int", x.Args[0])
		return g.cv(divTerm("tmod", a.S, b.S), "Int", a.Ty)
	}
	fail("contract operator %s unsupported", op)
	return CV{}
}

func (e *Env) equal(a, b CV, x *CE) string {
	if a.So == "Nil" && b.So == "Nil" {
		return "true"
	}
	if a.So == "Nil" {
		a, b = b, a
	}
	if b.So == "Nil" {
		switch a.So {
		case "Int":
			return eq(a.S, "0")
		case "NB":
			return "(isnil " + a.S + ")"
		case "Slc":
			return "(snil " + a.S + ")"
		case "Any":
			return eq(a.S, "ANil")
		}
		fail("comparison of %s with nil in %s", a.So, x)
	}
	if a.So == "NB" || b.So == "NB" || a.So == "B" || b.So == "B" {
		a, b = e.coerce(a, "B"), e.coerce(b, "B")
		return eq(a.S, b.S)
	}
	if a.So != b.So {
		fail("comparison of %s with %s in %s", a.So, b.So, x)
	}
	return eq(a.S, b.S)
}

// memTerm is membership of k among the first n elements of slice s ([][]byte / []string),
// with the definitional unfolding emitted for two levels (base and step of mem).
func (e *Env) joinTerm(s CV, n, sep string) string {
	g := e.g
	sl, ok := s.Ty.Underlying().(*types.Slice)
	if !ok || g.sortOf(sl.Elem()) != "NB" {
		fail("joined() needs a slice of strings, got %s", s.Ty)
	}
	h := g.elemHeapOf(sl.Elem())
	arr := g.s.def("arr", T{g.readHeap(e.st, h, "(ptr "+s.S+")"), "(Array Int NB)"}).S
	o := "(off " + s.S + ")"
	g.joinUnfold(arr, o, n, sep)
	return app("joinN", arr, o, n, sep)
}

// joinUnfold emits the definition of joinN at n and n - 1.
func (g *Gen) joinUnfold(arr, o, n, sep string) {
	cur := n
	for d := 0; d < 2; d++ {
		key := "join|" + arr + "|" + o + "|" + cur + "|" + sep
		prev := "(- " + cur + " 1)"
		if g.memSeen[key] {
			g.s.hit(key)
			cur = prev
			continue
		}
		g.memSeen[key] = true
		start := len(g.s.lines)
		last := "(val (select " + arr + " (+ " + o + " " + prev + ")))"
		g.s.assume(eq(app("joinN", arr, o, cur, sep), ite("(<= "+cur+" 0)", "eps", ite("(= "+cur+" 1)", last, "(cat (cat "+app("joinN", arr, o, prev, sep)+" "+sep+") "+last+")"))))
		g.s.rec(key, start)
		cur = prev
	}
}

func (e *Env) memTerm(s CV, n, k string) string {
	g := e.g
	sl, ok := s.Ty.Underlying().(*types.Slice)
	if !ok || g.sortOf(sl.Elem()) != "NB" {
		fail("member() needs a slice of byte strings, got %s", s.Ty)
	}
	h := g.elemHeapOf(sl.Elem())
	arr := g.s.def("arr", T{g.readHeap(e.st, h, "(ptr "+s.S+")"), "(Array Int NB)"}).S
	o := "(off " + s.S + ")"
	t := app("mem", arr, o, n, k)
	cur := n
	for d := 0; d < 2; d++ {
		key := arr + "|" + o + "|" + cur + "|" + k
		prev := "(- " + cur + " 1)"
		if g.memSeen[key] {
			g.s.hit("mem|" + key)
			cur = prev
			continue
		}
		g.memSeen[key] = true
		start := len(g.s.lines)
		g.s.assume(eq(app("mem", arr, o, cur, k), and("(> "+cur+" 0)", or(app("mem", arr, o, prev, k), eq("(val (select "+arr+" (+ "+o+" "+prev+")))", k)))))
		g.s.rec("mem|"+key, start)
		cur = prev
	}
	return t
}

func (e *Env) call(x *CE, pos bool) CV {
	g := e.g
	if x.Args[0].Op == "field" {
		return e.methodCall(x, pos)
	}
	if x.Args[0].Op != "ident" {
		fail("call of non-identifier in %s", x)
	}
	name := x.Args[0].Name
	args := x.Args[1:]
	argv := func(i int) CV {
		if i >= len(args) {
			fail("%s: missing argument %d", x, i)
		}
		return e.tr(args[i], pos)
	}
	switch name {
	case "len":
		a := argv(0)
		switch a.So {
		case "Slc":
			return g.cv("(len_ "+a.S+")", "Int", nil)
		case "NB":
			return g.cv("(blen (val "+a.S+"))", "Int", nil)
		case "B":
			return g.cv("(blen "+a.S+")", "Int", nil)
		}
		fail("len of %s", a.So)
	case "isnil":
		a := argv(0)
		return g.cv(e.equal(a, g.cv("nil", "Nil", nil), x), "Bool", nil)
	case "val":
		return e.coerce(argv(0), "B")
	case "ptr":
		return g.cv("(ptr "+argv(0).S+")", "Int", nil)
	case "off":
		return g.cv("(off "+argv(0).S+")", "Int", nil)
	case "alloc":
		return g.cv(g.alloc(e.st), "Int", nil)
	case "ite":
		c, a, b := argv(0), argv(1), argv(2)
		if b.So != a.So {
			b = e.coerce(b, a.So)
		}
		return CV{T{ite(c.S, a.S, b.S), a.So}, a.Ty}
	case "member":
		s, n, k := argv(0), argv(1), e.coerce(argv(2), "B")
		return g.cv(e.memTerm(s, n.S, k.S), "Bool", nil)
	case "joined":
		// joined(s, sep): the elements of the []string s joined by sep (strings.Join), unfolded at
		// len(s) and len(s) - 1
		sv, sep := argv(0), e.coerce(argv(1), "B")
		return g.cv(e.joinTerm(sv, "(len_ "+sv.S+")", sep.S), "B", nil)
	case "joinedN":
		// joinedN(s, n, sep): the first n elements of the []string s joined by sep
		sv, n, sep := argv(0), argv(1), e.coerce(argv(2), "B")
		return g.cv(e.joinTerm(sv, n.S, sep.S), "B", nil)
	case "fresh":
		a := argv(0)
		a0 := g.alloc(e.old)
		switch a.So {
		case "Int":
			return g.cv("(> "+a.S+" "+a0+")", "Bool", nil)
		case "Slc":
			return g.cv(or("(snil "+a.S+")", "(> (ptr "+a.S+") "+a0+")"), "Bool", nil)
		}
		fail("fresh() of %s", a.So)
	case "is":
		a := argv(0)
		if len(args) != 2 || args[1].Op != "type" && args[1].Op != "ident" {
			fail("is(e, T) needs a type as second argument: %s", x)
		}
		ty, _ := g.resolveType(args[1].Name)
		return g.cv(g.isType(a.T, a.Ty, ty), "Bool", nil)
	case "as":
		a := argv(0)
		ty, so := g.resolveType(args[1].Name)
		if a.So == "Any" {
			return e.tr(&CE{Op: "cast", Name: args[1].Name, Args: []*CE{args[0]}}, pos)
		}
		if a.So == "Int" && g.s.noDef == 0 && g.instGen == 0 && len(a.S) < 200 {
			// an object a contract looks into is an object the universal facts about references apply to
			g.addInstTermGen("Ref", a.S)
		}
		return g.cv(a.S, so, ty)
	case "has":
		m, k := argv(0), argv(1)
		mt, ok := m.Ty.Underlying().(*types.Map)
		if !ok {
			fail("has() needs a map: %s", x)
		}
		k = e.coerce(k, g.mapKeySort(mt))
		if g.s.noDef == 0 && g.instGen == 0 && len(k.S) < 200 {
			g.addInstTermGen(g.mapKeySort(mt), k.S) // a key a contract asks about
		}
		return g.cv("(select "+g.readHeap(e.st, g.mapHasHeap(mt), m.S)+" "+k.S+")", "Bool", nil)
	case "local":
		// local(x): the function's local variable x at this point (postconditions that pin down an
		// intermediate result; such a clause is checked but never exported to callers)
		if e.frame == nil || len(args) != 1 || args[0].Op != "ident" {
			fail("local(x) is only available in the postconditions of the function under verification")
		}
		c, ok := e.frame.cells[args[0].Name]
		if !ok {
			fail("local(%s): no such local variable", args[0].Name)
		}
		v, live := e.st.cells[c]
		et := c.Type().Underlying().(*types.Pointer).Elem()
		if !live {
			// not assigned on this path: an arbitrary value (guard the clause with the path's condition)
			return CV{g.s.decl("dead."+args[0].Name, g.sortOf(et)), et}
		}
		return CV{v, et}
	case "isbool":
		return g.cv("((_ is ABool) "+argv(0).S+")", "Bool", nil)
	case "nth":
		// nth(i, f(args)): the i-th result of a pure Go function with several results
		if len(args) != 2 || args[0].Op != "num" || args[1].Op != "call" || args[1].Args[0].Op != "ident" {
			fail("nth(i, f(args)) needs a literal index and a call of a pure function: %s", x)
		}
		fname := args[1].Args[0].Name
		fn, ok := g.P.Funcs[fname]
		fs := g.Specs.Funcs[fname]
		if !ok || fs == nil || !fs.Pure {
			fail("%s: %s must be a Go function declared pure", x, fname)
		}
		var as []T
		for i, a := range args[1].Args[1:] {
			v := e.tr(a, pos)
			want := g.sortOf(fn.Params[i].Type())
			if v.So != want {
				v = e.coerce(v, want)
			}
			as = append(as, v.T)
		}
		rs := g.inlinePure(fn, as, e.st, e.pc)
		k, _ := strconv.Atoi(args[0].Name)
		if k >= len(rs) {
			fail("%s: function has %d results", x, len(rs))
		}
		return CV{rs[k], fn.Signature.Results().At(k).Type()}
	case "deref":
		// deref(p): the value a pointer to a non-struct (e.g. *[]T) points to
		a := argv(0)
		pt, ok := a.Ty.Underlying().(*types.Pointer)
		if !ok {
			fail("deref() needs a pointer: %s", x)
		}
		return CV{T{g.readHeap(e.st, g.boxHeapOf(pt.Elem()), a.S), g.sortOf(pt.Elem())}, pt.Elem()}
	case "isanyint":
		return g.cv("((_ is AInt) "+argv(0).S+")", "Bool", nil)
	case "isanyflt":
		return g.cv("((_ is AFlt) "+argv(0).S+")", "Bool", nil)
	case "numtag":
		a := argv(0)
		return g.cv(ite("((_ is AInt) "+a.S+")", "(a.it "+a.S+")", "(a.ft "+a.S+")"), "Int", nil)
	case "intof":
		return g.cv("(a.i "+argv(0).S+")", "Int", nil)
	case "fltof":
		return g.cv("(a.f "+argv(0).S+")", "F64", nil)
	case "isstr":
		return g.cv("((_ is AStr) "+argv(0).S+")", "Bool", nil)
	case "isbytes":
		return g.cv("((_ is ABytes) "+argv(0).S+")", "Bool", nil)
	case "isint64":
		a := argv(0)
		return g.cv(and("((_ is AInt) "+a.S+")", eq("(a.it "+a.S+")", g.tag(types.Typ[types.Int64]))), "Bool", nil)
	case "isf64":
		a := argv(0)
		return g.cv(and("((_ is AFlt) "+a.S+")", eq("(a.ft "+a.S+")", g.tag(types.Typ[types.Float64]))), "Bool", nil)
	case "pair":
		kt, _ := g.resolveType("KVPair")
		so := g.sortOf(kt)
		return g.cv("(mk.KVPair "+e.coerce(argv(0), "NB").S+" "+e.coerce(argv(1), "NB").S+")", so, kt)
	case "visited":
		if e.iterHeap == "" {
			fail("visited() outside a loop over a map")
		}
		k := argv(0)
		so := splitSort(g.heapSort(e.iterHeap))[1]
		return g.cv("(select "+g.readHeap(e.st, e.iterHeap, "")+" "+e.coerce(k, so).S+")", "Bool", nil)
	case "elems":
		s := argv(0)
		sl, ok := s.Ty.Underlying().(*types.Slice)
		if !ok {
			fail("elems() needs a slice")
		}
		h := g.elemHeapOf(sl.Elem())
		return g.cv(g.readHeap(e.st, h, "(ptr "+s.S+")"), "(Array Int "+g.sortOf(sl.Elem())+")", nil)
	case "select":
		a, i := argv(0), argv(1)
		so := a.So
		if !strings.HasPrefix(so, "(Array ") {
			fail("select on %s", so)
		}
		parts := splitSort(so)
		return g.cv("(select "+a.S+" "+i.S+")", parts[2], nil)
	case "AInt", "ABool", "AStr", "ABytes", "AFlt", "ARef":
		return e.anyCtor(name, x, pos)
	}
	if ax, ok := g.Specs.Axioms[name]; ok && e.axiomUse {
		// an axiom named inside "use forall ... :: axiom(args)": its body at those arguments
		if len(args) != len(ax.Params) {
			fail("%s: axiom %s takes %d arguments", x, name, len(ax.Params))
		}
		vars := map[string]CV{}
		for i, p := range ax.Params {
			v := argv(i)
			ty, so := g.resolveType(p.Type)
			if v.So != so {
				v = e.coerce(v, so)
			}
			if ty != nil {
				v.Ty = ty
			}
			vars[p.Name] = v
		}
		if !ax.Cex {
			g.trustedUse["axiom:"+name] = true
		}
		n := e.with(vars)
		n.cells = nil
		n.depth = e.depth + 1
		return n.tr(ax.Body, pos)
	}
	if lem, ok := g.Specs.Lemmas[name]; ok && e.axiomUse {
		// a proved lemma named inside "use forall ... :: lemma(args)": hypotheses ==> conclusions
		if len(args) != len(lem.Params) {
			fail("%s: lemma %s takes %d arguments", x, name, len(lem.Params))
		}
		vars := map[string]CV{}
		for i, p := range lem.Params {
			v := argv(i)
			ty, so := g.resolveType(p.Type)
			if v.So != so {
				v = e.coerce(v, so)
			}
			if ty != nil {
				v.Ty = ty
			}
			vars[p.Name] = v
		}
		n := e.with(vars)
		n.cells = nil
		n.depth = e.depth + 1
		var pre, post []string
		for _, c := range lem.Requires {
			pre = append(pre, n.tr(c.E, pos).S)
		}
		for _, c := range lem.Ensures {
			post = append(post, n.tr(c.E, pos).S)
		}
		return g.cv(imp(and(pre...), and(post...)), "Bool", nil)
	}
	if d, ok := g.Specs.Defines[name]; ok {
		if e.depth > 40 {
			fail("define %s: expansion too deep (recursive?)", name)
		}
		if len(args) != len(d.Params) {
			fail("%s: define %s takes %d arguments", x, name, len(d.Params))
		}
		vars := map[string]CV{}
		for i, p := range d.Params {
			v := argv(i)
			ty, so := g.resolveType(p.Type)
			if v.So != so {
				v = e.coerce(v, so)
			}
			if ty != nil {
				v.Ty = ty
			}
			vars[p.Name] = v
		}
		n := e.with(vars)
		// a define sees only its parameters, constants, globals and ghost state
		n.cells = nil
		n.depth = e.depth + 1
		r := n.tr(d.Body, pos)
		if r.So == "Bool" {
			r.T = g.s.def("d."+name, r.T)
		}
		return r
	}
	if gf, ok := g.Specs.GhostFld[name]; ok {
		o := argv(0)
		h := "GH." + name
		g.declHeap(h, "(Array Int "+gf[1]+")")
		return g.cv(g.readHeap(e.st, h, o.S), gf[1], nil)
	}
	if sf, ok := g.Specs.SpecFuns[name]; ok {
		if len(args) != len(sf.Args) {
			fail("%s: spec function %s takes %d arguments", x, name, len(sf.Args))
		}
		var as []string
		for i := range args {
			as = append(as, e.coerce(argv(i), sf.Args[i]).S)
		}
		if name == "tdiv" || name == "tmod" {
			return g.cv(divTerm(name, as[0], as[1]), sf.Ret, nil)
		}
		return g.cv(app(name, as...), sf.Ret, nil)
	}
	if fn, ok := g.P.Funcs[name]; ok {
		fs := g.Specs.Funcs[name]
		if fs == nil || !fs.Pure {
			fail("%s: Go function %s used in a contract must be declared pure", x, name)
		}
		var as []T
		for i := range args {
			v := argv(i)
			want := g.sortOf(fn.Params[i].Type())
			if v.So != want {
				v = e.coerce(v, want)
			}
			as = append(as, v.T)
		}
		rs := g.inlinePure(fn, as, e.st, e.pc)
		if len(rs) != 1 {
			fail("%s: pure function with %d results used as a value", x, len(rs))
		}
		return CV{rs[0], fn.Signature.Results().At(0).Type()}
	}
	fail("contract calls unknown function %q", name)
	return CV{}
}

func splitSort(so string) []string {
	// "(Array X Y)" -> ["Array", X, Y] at top level
	s := strings.TrimSuffix(strings.TrimPrefix(so, "("), ")")
	var parts []string
	d, last := 0, 0
	for i, c := range s {
		switch c {
		case '(':
			d++
		case ')':
			d--
		case ' ':
			if d == 0 {
				parts = append(parts, s[last:i])
				last = i + 1
			}
		}
	}
	return append(parts, s[last:])
}

func (e *Env) anyCtor(name string, x *CE, pos bool) CV {
	g := e.g
	a := e.tr(x.Args[1], pos)
	switch name {
	case "ABool":
		return g.cv("(ABool "+a.S+")", "Any", nil)
	case "AStr":
		return g.cv("(AStr "+e.coerce(a, "NB").S+")", "Any", nil)
	case "ABytes":
		return g.cv("(ABytes "+e.coerce(a, "NB").S+")", "Any", nil)
	case "AInt": // AInt(i) is an int64
		return g.cv("(AInt "+g.tag(types.Typ[types.Int64])+" "+a.S+")", "Any", nil)
	case "AFlt":
		return g.cv("(AFlt "+g.tag(types.Typ[types.Float64])+" "+a.S+")", "Any", nil)
	}
	fail("constructor %s", name)
	return CV{}
}

// isType is the dynamic type test "v (static type from) holds a value of type to".
func (g *Gen) isType(v T, from, to types.Type) string {
	switch v.So {
	case "Int": // non-empty interface (reference)
		if _, ok := to.Underlying().(*types.Interface); ok {
			if from != nil && types.Identical(from, to) {
				return not(eq(v.S, "0"))
			}
			return and(not(eq(v.S, "0")), app("implements", "(dyn "+v.S+")", g.tag(to)))
		}
		return and(not(eq(v.S, "0")), eq("(dyn "+v.S+")", g.tag(to)))
	case "Any":
		switch g.sortOf(to) {
		case "Bool":
			return "((_ is ABool) " + v.S + ")"
		case "Int":
			if _, ok := to.Underlying().(*types.Basic); ok {
				return and("((_ is AInt) "+v.S+")", eq("(a.it "+v.S+")", g.tag(to)))
			}
			if _, ok := to.Underlying().(*types.Interface); ok {
				return and("((_ is ARef) "+v.S+")", app("implements", "(a.rt "+v.S+")", g.tag(to)))
			}
			return and("((_ is ARef) "+v.S+")", eq("(a.rt "+v.S+")", g.tag(to)))
		case "F64":
			return and("((_ is AFlt) "+v.S+")", eq("(a.ft "+v.S+")", g.tag(to)))
		case "NB":
			if isByteSlice(to) {
				return "((_ is ABytes) " + v.S + ")"
			}
			return "((_ is AStr) " + v.S + ")"
		case "Slc":
			return and("((_ is ASlc) "+v.S+")", eq("(a.st "+v.S+")", g.tag(to)))
		case "Any":
			return not(eq(v.S, "ANil"))
		}
		return and("((_ is AOther) "+v.S+")", eq("(a.ot "+v.S+")", g.tag(to)))
	}
	fail("type test on sort %s", v.So)
	return ""
}

func (e *Env) quant(x *CE, pos bool) CV {
	g := e.g
	if e.noQuant {
		fail("quantifier under <==> is not supported: %s", x)
	}
	universalUse := (x.Op == "forall") == !(pos != e.hyp) // see below
	// Polarity table (hyp = we may assume the formula; goal = we must prove it):
	//   must-prove forall  -> arbitrary skolem (shared per nesting depth)
	//   may-assume forall  -> instantiate at the skolems and the hint terms
	//   must-prove exists  -> unsupported (needs a witness; use member())
	//   may-assume exists  -> fresh skolem
	mayAssume := e.hyp == pos
	_ = universalUse
	isAll := x.Op == "forall"
	if !isAll {
		if r, ok := e.boundedExists(x, pos); ok {
			return r
		}
	}
	vars := map[string]CV{}
	body := func(inst map[string]CV) string {
		n := e.with(inst)
		n.qd = e.qd + len(x.Vars)
		r := n.tr(x.Args[0], pos)
		e.want(r, "Bool", x.Args[0])
		return r.S
	}
	// "Ref" binders range over object references (SMT Int); they are instantiated at the
	// objects the code touches rather than at index terms
	smtSort := func(so string) string {
		if so == "Ref" {
			return "Int"
		}
		return so
	}
	skolemNames := func() map[string]CV {
		m := map[string]CV{}
		for i, b := range x.Vars {
			ty, so := g.resolveType(b.Sort)
			n := fmt.Sprintf("QK.%s.%d", sanitize(so), e.qd+i)
			g.s.declNamed(n, smtSort(so))
			m[b.Name] = CV{T{n, smtSort(so)}, ty}
		}
		return m
	}
	switch {
	case isAll && !mayAssume:
		if e.hyp {
			// a universally quantified premise inside an assumption: sound only with fresh
			// witnesses; the remembered universal facts are instantiated at them
			m := map[string]CV{}
			for _, b := range x.Vars {
				ty, so := g.resolveType(b.Sort)
				c := g.s.decl("sk."+b.Name, smtSort(so))
				m[b.Name] = CV{c, ty}
				g.addInstTerm(so, c.S)
			}
			return g.cv(body(m), "Bool", nil)
		}
		return g.cv(body(skolemNames()), "Bool", nil)
	case isAll && mayAssume:
		var cs []string
		cs = append(cs, body(skolemNames()))
		if len(x.Vars) == 1 {
			ty, so := g.resolveType(x.Vars[0].Sort)
			// also at the goal skolems of the same sort introduced at other nesting depths (a
			// nested assumed fact must meet a goal quantifier that sits at the top level)
			for d := 0; d < 4; d++ {
				n := fmt.Sprintf("QK.%s.%d", sanitize(so), d)
				if d != e.qd && g.s.decls[n] {
					cs = append(cs, body(map[string]CV{x.Vars[0].Name: {T{n, smtSort(so)}, ty}}))
				}
			}
			if so == "Int" {
				for _, it := range e.insts {
					cs = append(cs, body(map[string]CV{x.Vars[0].Name: {T{it, so}, ty}}))
				}
			}
			// remember the fact: it is instantiated at every term of that sort the code reads later
			if !e.noReg {
				snap := *e
				snap.st = e.st.clone()
				snap.vars = map[string]CV{}
				for k, v := range e.vars {
					snap.vars[k] = v
				}
				name := x.Vars[0].Name
				outer := and(e.guards...)
				ff := &forallFact{sort: so, guard: e.pc, outer: outer, inst: func(t string) string {
					n := snap.with(map[string]CV{name: {T{t, smtSort(so)}, ty}})
					n.qd = snap.qd + 1
					// facts nested under a quantifier over references are remembered too (there
					// are few objects to instantiate the outer one at); others are not
					n.noReg = so != "Ref"
					r := n.tr(x.Args[0], pos)
					return r.S
				}}
				g.foralls = append(g.foralls, ff)
				for _, t := range append([]string{}, g.instTerms[so]...) {
					g.instOne(ff, t)
				}
			}
		}
		_ = vars
		return g.cv(and(cs...), "Bool", nil)
	case !isAll && mayAssume:
		m := map[string]CV{}
		for _, b := range x.Vars {
			ty, so := g.resolveType(b.Sort)
			m[b.Name] = CV{g.s.decl("ex."+b.Name, smtSort(so)), ty}
		}
		return g.cv(body(m), "Bool", nil)
	}
	fail("existential quantifier in a position that must be proved (%s): state it with member() or a witness", x)
	return CV{}
}

// boundedExists handles "exists i Int :: 0 <= i && i < N && P(i)" as a named
// recursive predicate ex(N) whose definition is unfolded at N and N-1:
//   ex(m) = m > 0 && (ex(m-1) || P(m-1))
// The predicate's identity is the text of P in the current state, so two
// occurrences denote the same predicate exactly when they read the same heap
// versions. The unfoldings are consequences of the definition (sound).
func (e *Env) boundedExists(x *CE, pos bool) (CV, bool) {
	g := e.g
	if len(x.Vars) != 1 {
		return CV{}, false
	}
	_, so := g.resolveType(x.Vars[0].Sort)
	if so != "Int" {
		return CV{}, false
	}
	iv := x.Vars[0].Name
	// flatten the && chain
	var conj []*CE
	var flat func(c *CE)
	flat = func(c *CE) {
		if c.Op == "bin" && c.Name == "&&" {
			flat(c.Args[0])
			flat(c.Args[1])
			return
		}
		conj = append(conj, c)
	}
	flat(x.Args[0])
	if len(conj) < 3 {
		return CV{}, false
	}
	lo, hi := conj[0], conj[1]
	if !(lo.Op == "bin" && lo.Name == "<=" && lo.Args[0].Op == "num" && lo.Args[0].Name == "0" && lo.Args[1].Op == "ident" && lo.Args[1].Name == iv) {
		return CV{}, false
	}
	if !(hi.Op == "bin" && hi.Name == "<" && hi.Args[0].Op == "ident" && hi.Args[0].Name == iv) {
		return CV{}, false
	}
	n := e.tr(hi.Args[1], pos)
	e.want(n, "Int", hi.Args[1])
	rest := conj[2]
	for _, c := range conj[3:] {
		rest = &CE{Op: "bin", Name: "&&", Args: []*CE{rest, c}}
	}
	snap := *e
	snap.st = e.st.clone()
	// free variables of P (contract / define parameters other than the bound index) become
	// arguments of the named predicate, so that instances at different argument values are
	// instances of one predicate
	var fvs []string
	seenFv := map[string]bool{}
	var walk func(c *CE)
	walk = func(c *CE) {
		if c == nil {
			return
		}
		if c.Op == "ident" && c.Name != iv && !seenFv[c.Name] {
			if v, ok := e.vars[c.Name]; ok && (v.So == "Int" || v.So == "B" || v.So == "Bool" || v.So == "NB" || v.So == "Any" || v.So == "Slc") {
				seenFv[c.Name] = true
				fvs = append(fvs, c.Name)
			}
		}
		for _, a := range c.Args {
			walk(a)
		}
	}
	walk(rest)
	sort.Strings(fvs)
	bodyAt := func(t string, fv map[string]CV) string {
		m := map[string]CV{iv: {T{t, "Int"}, nil}}
		for k, v := range fv {
			m[k] = v
		}
		en := snap.with(m)
		en.noQuant = true
		g.s.noDef++
		r := en.tr(rest, pos)
		g.s.noDef--
		e.want(r, "Bool", rest)
		return r.S
	}
	body := func(t string) string { return bodyAt(t, nil) }
	probe := g.s.decl("exq", "Int")
	probes := map[string]CV{}
	var argSorts, argTerms []string
	for _, n := range fvs {
		v := e.vars[n]
		pc := g.s.decl("exq."+sanitize(n), v.So)
		probes[n] = CV{pc, v.Ty}
		argSorts = append(argSorts, v.So)
		argTerms = append(argTerms, v.S)
	}
	canon := strings.ReplaceAll(bodyAt(probe.S, probes), probe.S, "?")
	for _, n := range fvs {
		canon = strings.ReplaceAll(canon, probes[n].S, "?"+n)
	}
	id := g.exIDs[canon]
	if id == "" {
		id = fmt.Sprintf("ex.%d", len(g.exIDs))
		g.exIDs[canon] = id
		g.s.lines = append(g.s.lines, "(declare-fun "+id+" ("+strings.Join(append([]string{"Int"}, argSorts...), " ")+") Bool)")
	}
	exAt := func(m string) string { return app(id, append([]string{m}, argTerms...)...) }
	argKey := strings.Join(argTerms, ",")
	// witness rule: 0 <= j < N && P(j) ==> ex(N), instantiated lazily like an assumed forall
	wkey := id + "|wit|" + n.S + "|" + argKey
	if g.memSeen[wkey] {
		g.s.hit(wkey)
	}
	if !g.memSeen[wkey] && !e.noReg {
		g.memSeen[wkey] = true
		wstart := len(g.s.lines)
		defer func() { g.s.rec(wkey, wstart) }()
		nS := n.S
		ff := &forallFact{sort: "Int", guard: "true", outer: "true", inst: func(t string) string {
			return imp(and("(<= 0 "+t+")", "(< "+t+" "+nS+")", body(t)), exAt(nS))
		}}
		g.foralls = append(g.foralls, ff)
		for _, t := range append([]string{}, g.instTerms["Int"]...) {
			g.instOne(ff, t)
		}
	}
	cur := n.S
	for d := 0; d < 2; d++ {
		key := id + "|" + cur + "|" + argKey
		prev := "(- " + cur + " 1)"
		if g.memSeen[key] {
			g.s.hit(key)
			cur = prev
			continue
		}
		g.memSeen[key] = true
		ustart := len(g.s.lines)
		g.s.assume(eq(exAt(cur), and("(> "+cur+" 0)", or(exAt(prev), body(prev)))))
		g.s.rec(key, ustart)
		cur = prev
	}
	// where the formula may be assumed, an existential also yields a witness: a fresh skolem w
	// with ex(N) ==> 0 <= w < N && P(w); w joins the instantiation terms, so that the witness rules
	// of the same statement over other (frame-equal) heap versions fire at it
	if e.hyp == pos && !e.noReg {
		skey := id + "|sk|" + n.S + "|" + argKey
		if g.memSeen[skey] {
			g.s.hit(skey)
		} else {
			g.memSeen[skey] = true
			sstart := len(g.s.lines)
			w := g.s.decl("exw", "Int")
			g.s.assume(imp(exAt(n.S), and("(<= 0 "+w.S+")", "(< "+w.S+" "+n.S+")", body(w.S))))
			g.addInstTerm("Int", w.S)
			g.s.rec(skey, sstart)
		}
	}
	return g.cv(exAt(n.S), "Bool", nil), true
}

// methodCall: recv.m(args) in a contract — a method declared pure is evaluated in place.
func (e *Env) methodCall(x *CE, pos bool) CV {
	g := e.g
	recv := e.tr(x.Args[0].Args[0], pos)
	if recv.Ty == nil {
		fail("%s: method call on an untyped value", x)
	}
	key := ""
	switch t := recv.Ty.(type) {
	case *types.Pointer:
		if nt, ok := t.Elem().(*types.Named); ok {
			key = "(*" + nt.Obj().Name() + ")." + x.Args[0].Name
		}
	case *types.Named:
		key = "(" + t.Obj().Name() + ")." + x.Args[0].Name
	}
	fn := g.P.Funcs[key]
	fs := g.Specs.Funcs[key]
	if fn == nil || fs == nil || !fs.Pure {
		fail("%s: method %s used in a contract must exist and be declared pure", x, key)
	}
	as := []T{recv.T}
	for i, a := range x.Args[1:] {
		v := e.tr(a, pos)
		want := g.sortOf(fn.Params[i+1].Type())
		if v.So != want {
			v = e.coerce(v, want)
		}
		as = append(as, v.T)
	}
	rs := g.inlinePure(fn, as, e.st, e.pc)
	if len(rs) != 1 {
		fail("%s: pure method with %d results used as a value", x, len(rs))
	}
	return CV{rs[0], fn.Signature.Results().At(0).Type()}
}
