package main

import (
	"sync"
	"fmt"
	"go/types"
	"os"
	"sort"
	"strings"

	"golang.org/x/tools/go/packages"
	"golang.org/x/tools/go/ssa"
	"golang.org/x/tools/go/ssa/ssautil"
)

// Program is the loaded kvql package: typed AST + go/ssa naive form, built from
// the working tree at RepoDir on every run (hooks enabled: build tag "verif").
type Program struct {
	Dir   string
	Pkg   *packages.Package
	Prog  *ssa.Program
	SPkg  *ssa.Package
	Funcs map[string]*ssa.Function // by contract key, e.g. "(*FilterOptimizer).unionRange", "inRange"
	cmaps     map[*ssa.Global]*constMap
	cmapsOnce sync.Once
}

func repoDir() string {
	if d := os.Getenv("KVC_REPO"); d != "" {
		return d
	}
	return "/repo"
}

func loadProgram(dir string) (*Program, error) {
	cfg := &packages.Config{
		Mode:       packages.LoadAllSyntax,
		Dir:        dir,
		BuildFlags: []string{"-tags=verif", "-mod=mod"},
		Env:        append(os.Environ(), "GOFLAGS=-mod=mod", "GOPROXY=off", "GOSUMDB=off", "GOTOOLCHAIN=local"),
	}
	pkgs, err := packages.Load(cfg, ".")
	if err != nil {
		return nil, err
	}
	if len(pkgs) != 1 {
		return nil, fmt.Errorf("expected one package, got %d", len(pkgs))
	}
	if len(pkgs[0].Errors) > 0 {
		var sb strings.Builder
		for _, e := range pkgs[0].Errors {
			sb.WriteString(e.Error() + "\n")
		}
		return nil, fmt.Errorf("package does not type-check:\n%s", sb.String())
	}
	prog, spkgs := ssautil.Packages(pkgs, ssa.NaiveForm|ssa.GlobalDebug)
	sp := spkgs[0]
	sp.Build()
	p := &Program{Dir: dir, Pkg: pkgs[0], Prog: prog, SPkg: sp, Funcs: map[string]*ssa.Function{}}
	for _, m := range sp.Members {
		switch m := m.(type) {
		case *ssa.Function:
			p.Funcs[m.Name()] = m
		case *ssa.Type:
			for _, t := range []types.Type{m.Type(), types.NewPointer(m.Type())} {
				ms := prog.MethodSets.MethodSet(t)
				for i := 0; i < ms.Len(); i++ {
					fn := prog.MethodValue(ms.At(i))
					if fn == nil || fn.Synthetic != "" || fn.Pkg != sp {
						continue
					}
					p.Funcs[funcKey(fn)] = fn
				}
			}
		}
	}
	return p, nil
}

// funcKey is the name a contract uses for a function: "name" for package-level
// functions, "(*T).name" / "(T).name" for methods.
func funcKey(fn *ssa.Function) string {
	if fn.Signature.Recv() == nil {
		if fn.Parent() != nil {
			return funcKey(fn.Parent()) + "$" + strings.TrimPrefix(fn.Name(), fn.Parent().Name()+"$")
		}
		return fn.Name()
	}
	rt := fn.Signature.Recv().Type()
	if pt, ok := rt.(*types.Pointer); ok {
		return "(*" + pt.Elem().(*types.Named).Obj().Name() + ")." + fn.Name()
	}
	if nt, ok := rt.(*types.Named); ok {
		return "(" + nt.Obj().Name() + ")." + fn.Name()
	}
	return fn.String()
}

func (p *Program) funcNames() []string {
	var ns []string
	for n := range p.Funcs {
		ns = append(ns, n)
	}
	sort.Strings(ns)
	return ns
}

func dumpFunc(fn *ssa.Function) {
	fn.WriteTo(os.Stdout)
	for _, af := range fn.AnonFuncs {
		dumpFunc(af)
	}
}
