package main

import (
	"bytes"
	"context"
	"encoding/json"
	"flag"
	"fmt"
	"os"
	"os/exec"
	"path/filepath"
	"regexp"
	"runtime"
	"sort"
	"strconv"
	"strings"
	"sync"
	"time"
)

// ---------- known findings ----------

type Finding struct {
	Property   string `json:"property"`
	Obligation string `json:"obligation"`
	CarveOut   string `json:"carve_out"` // contract expression over the function's parameters / ghosts
	Note       string `json:"note"`
	Witness    string `json:"witness,omitempty"`
}

type FindingsFile struct {
	Findings []Finding `json:"findings"`
	Fixed    []string  `json:"fixed"`
}

func loadFindings() (*FindingsFile, error) {
	ff := &FindingsFile{}
	b, err := os.ReadFile(filepath.Join(verifDir(), "known_findings.json"))
	if err != nil {
		if os.IsNotExist(err) {
			return ff, nil
		}
		return nil, err
	}
	if err := json.Unmarshal(b, ff); err != nil {
		return nil, fmt.Errorf("known_findings.json: %v", err)
	}
	return ff, nil
}

// ---------- evidence ----------

type fnEvidence struct {
	Name        string   `json:"name"`
	File        string   `json:"contract_at"`
	Instrs      int      `json:"ssa_instructions"`
	Obligations int      `json:"obligations"`
	Discharged  int      `json:"discharged"`
	Rounds      int      `json:"houdini_rounds"`
	Dropped     []string `json:"auto_candidates_dropped,omitempty"`
	Trusted     string   `json:"trusted,omitempty"`
}

type obSample struct {
	Name   string `json:"obligation"`
	Clause string `json:"clause"`
	Solver string `json:"solver"`
	Ms     int64  `json:"ms"`
	Kind   string `json:"kind"`
}

var droppedByExtraction = []string{
	"integer overflow of int counters / lengths / int64 data arithmetic (mathematical integers, A-INT)",
	"slice capacity (s[:hi] is required to satisfy hi <= len); append's in-place/reallocate choice is nondeterministic",
	"string and []byte are identified as values (conversion keeps the bytes; []byte(\"\") is non-nil)",
	"map iteration order is arbitrary; allocation never fails",
	"float64 arithmetic and comparisons are uninterpreted functions (no IEEE facts are used)",
	"standard-library leaves are replaced by the axioms listed under trusted_base",
	"callees under contract are represented by their contracts; callees without contract are executed in place when loop-free, otherwise their results and the heap are havocked",
	"typed nil pointers stored in interfaces are not distinguished from nil interfaces",
	"termination is proved only for loops with a decreases clause",
}

func cmdCheck(args []string) int {
	fl := flag.NewFlagSet("check", flag.ExitOnError)
	tier := fl.String("tier", os.Getenv("VERIF_TIER"), "quick | thorough")
	var prop string
	if len(args) > 0 && !strings.HasPrefix(args[0], "-") {
		prop, args = args[0], args[1:]
	}
	fl.Parse(args)
	if prop == "" && fl.NArg() > 0 {
		prop = fl.Arg(0)
	}
	if prop == "" {
		usage()
	}
	if *tier != "thorough" {
		*tier = "quick"
	}
	seed := 0
	if s := os.Getenv("VERIF_SEED"); s != "" {
		seed, _ = strconv.Atoi(s)
	}
	if prop == "C19" {
		return cmdCheckC19(*tier, seed)
	}
	t0 := time.Now()
	die := func(format string, a ...any) int {
		fmt.Printf("ENGINE-ERROR property=%s %s\n", prop, fmt.Sprintf(format, a...))
		rp := writeReplay(prop, "engine-error", map[string]any{"obligation": "engine-error", "error": fmt.Sprintf(format, a...)})
		fmt.Printf("VIOLATION property=%s replay=%s no-failing-input-found\n", prop, rp)
		return 1
	}
	p, err := loadProgram(repoDir())
	if err != nil {
		return die("cannot load the package: %v", err)
	}
	sp, err := loadSpecs(repoDir(), verifDir())
	if err != nil {
		return die("cannot load the contracts: %v", err)
	}
	ff, err := loadFindings()
	if err != nil {
		return die("%v", err)
	}
	var specs []*FuncSpec
	for _, k := range sp.Order {
		fs := sp.Funcs[k]
		if fs == nil {
			fs = sp.Lemmas[k]
		}
		if fs == nil || fs.Kind == "iface" || fs.Kind == "functype" || fs.Pure && len(fs.Ensures) == 0 {
			continue
		}
		if prop == "C06" {
			// panic-freedom is checked for every function that any property puts under contract
			if fs.Kind != "lemma" && len(fs.Props) > 0 {
				specs = append(specs, fs)
			}
			continue
		}
		for _, pr := range fs.Props {
			if pr == prop {
				specs = append(specs, fs)
			}
		}
	}
	if len(specs) == 0 {
		return die("no function is under contract for this property")
	}
	for _, f := range ff.Findings {
		knownFindingNames[f.Obligation] = true
	}
	quick, full := 3, 10
	if *tier == "thorough" {
		quick, full = 5, 60
	}
	outDir := filepath.Join(verifDir(), "out", prop)
	os.RemoveAll(outDir)
	// verify the functions concurrently; solver processes are bounded globally
	outs := make([]*funcOutcome, len(specs))
	var wg sync.WaitGroup
	par := make(chan struct{}, 6)
	for i, fs := range specs {
		i, fs := i, fs
		wg.Add(1)
		par <- struct{}{}
		go func() {
			defer wg.Done()
			defer func() { <-par }()
			if fs.Trusted != "" {
				outs[i] = &funcOutcome{Key: fs.Key, Spec: fs}
				return
			}
			outs[i] = verifyOne(p, sp, fs, prop, outDir, runtime.NumCPU(), quick, full)
		}()
	}
	wg.Wait()

	// expected obligation counts (vacuity guard)
	expect := map[string]int{}
	if b, err := os.ReadFile(filepath.Join(verifDir(), "expect", prop+".json")); err == nil {
		json.Unmarshal(b, &expect)
	}
	var fnEv []fnEvidence
	var samples []obSample
	var slow []obSample
	bySolver := map[string]int{}
	solverMs := map[string]int64{}
	nOb, nDis, nCover, nCoverOK := 0, 0, 0, 0
	violations := 0
	var knownLines []string
	var knownEv []map[string]any
	trusted := map[string]bool{}
	havocked := map[string]bool{}
	warnings := map[string]bool{}
	counts := map[string]int{}
	var assumedContracts []string
	for _, o := range outs {
		fe := fnEvidence{Name: o.Key, File: fmt.Sprintf("%s:%d", o.Spec.File, o.Spec.Line), Instrs: o.NInstr, Rounds: o.Rounds, Dropped: o.Dropped, Trusted: o.Spec.Trusted}
		if o.Spec.Trusted != "" {
			assumedContracts = append(assumedContracts, o.Key+": "+o.Spec.Trusted)
			fnEv = append(fnEv, fe)
			continue
		}
		if o.Err != "" {
			violations++
			rp := writeReplay(prop, o.Key+"#engine", map[string]any{"obligation": o.Key + "#engine.unsupported", "error": o.Err,
				"note": "the function could not be brought through the VC generator; none of its obligations is established"})
			fmt.Printf("VIOLATION property=%s replay=%s no-failing-input-found\n", prop, rp)
			fmt.Printf("  %s: %s\n", o.Key, o.Err)
			fnEv = append(fnEv, fe)
			continue
		}
		for k := range o.Gen.trustedUse {
			trusted[k] = true
		}
		for _, h := range o.Gen.havocked {
			havocked[h] = true
		}
		for cmn := range o.Gen.constMapsUsed {
			warnings["package-level map "+cmn+" is read as its literal (assigned only by the package initialiser from constant entries; every other use in the package is a lookup, range or len — re-checked syntactically on this run)"] = true
		}
		for _, w := range o.Warnings {
			warnings[w] = true
		}
		for _, r := range o.Results {
			if r.Ob.Cover {
				nCover++
				if r.OK() {
					nCoverOK++
				} else {
					violations++
					rp := writeReplay(prop, r.Ob.Name, map[string]any{"obligation": r.Ob.Name, "clause": r.Ob.Clause, "verdict": r.Verdict,
						"note": "vacuity: the contract's hypotheses are contradictory (cover query refuted)", "solver_output": firstLines(r.Output, 20)})
					fmt.Printf("VIOLATION property=%s replay=%s no-failing-input-found\n", prop, rp)
					fmt.Printf("  vacuous contract: %s\n", r.Ob.Name)
				}
				continue
			}
			nOb++
			fe.Obligations++
			counts[o.Key]++
			s := obSample{Name: r.Ob.Name, Clause: r.Ob.Clause, Solver: r.Solver, Ms: r.Ms, Kind: r.Ob.Kind}
			if r.OK() {
				nDis++
				fe.Discharged++
				bySolver[r.Solver]++
				solverMs[r.Solver] += r.Ms
				slow = append(slow, s)
				if len(samples) < 6 && (r.Ob.Kind == "ensures" || r.Ob.Kind == "inv.preserve") && len(r.Ob.Props) > 0 {
					samples = append(samples, s)
				}
				continue
			}
			// failed: known finding?
			handled := false
			for _, f := range ff.Findings {
				// (the return-site ordinal is not part of a finding's identity: an edit that adds or
				// removes a return statement renumbers them; the residual obligation below still
				// confines the finding to its carve-out at whichever site it is met)
				if f.Property != prop || stripRetOrdinal(f.Obligation) != stripRetOrdinal(r.Ob.Name) {
					continue
				}
				ok, why := residual(o, r, f, full)
				if ok {
					handled = true
					nOb--
					fe.Obligations--
					line := fmt.Sprintf("KNOWN-FINDING: property=%s %s: %s", prop, r.Ob.Name, f.Note)
					knownLines = append(knownLines, line)
					knownEv = append(knownEv, map[string]any{"obligation": r.Ob.Name, "carve_out": f.CarveOut, "note": f.Note, "residual_obligation": "discharged (" + why + ")"})
				}
				break
			}
			if handled {
				continue
			}
			violations++
			reportViolation(prop, o, r)
		}
		// vacuity: obligation count must not fall below the recorded one
		// (a refactoring may legitimately remove some return sites or panic sites: only a collapse
		// of the obligation count - to under half of what the pinned tree generates, by at least ten
		// obligations or to zero - is vacuity; small functions lose a few frame obligations when an
		// unmodelled call is replaced by plain code)
		if want, ok := expect[o.Key]; ok && counts[o.Key]*2 < want && (want-counts[o.Key] >= 10 || counts[o.Key] == 0) && os.Getenv("KVC_RECORD_EXPECT") != "1" {
			violations++
			rp := writeReplay(prop, o.Key+"#count", map[string]any{"obligation": o.Key + "#obligation-count", "note": fmt.Sprintf("the pinned tree generates %d obligations for this function, this run only %d", want, counts[o.Key])})
			fmt.Printf("VIOLATION property=%s replay=%s no-failing-input-found\n", prop, rp)
		}
		fnEv = append(fnEv, fe)
	}
	for k, want := range expect {
		if _, ok := counts[k]; !ok && want > 0 {
			found := false
			for _, o := range outs {
				found = found || o.Key == k
			}
			if !found {
				violations++
				rp := writeReplay(prop, k+"#missing", map[string]any{"obligation": k + "#missing", "note": "a function recorded as under contract for this property is no longer checked"})
				fmt.Printf("VIOLATION property=%s replay=%s no-failing-input-found\n", prop, rp)
			}
		}
	}
	if os.Getenv("KVC_RECORD_EXPECT") == "1" && violations == 0 {
		os.MkdirAll(filepath.Join(verifDir(), "expect"), 0o755)
		b, _ := json.MarshalIndent(counts, "", " ")
		os.WriteFile(filepath.Join(verifDir(), "expect", prop+".json"), b, 0o644)
	}
	for _, l := range knownLines {
		fmt.Println(l)
	}
	sort.Slice(slow, func(i, j int) bool { return slow[i].Ms > slow[j].Ms })
	if len(slow) > 10 {
		slow = slow[:10]
	}
	if len(samples) == 0 && len(slow) > 0 {
		samples = slow[:1]
	}
	tb := []string{
		"T-SSA: go/packages + go/types + go/ssa (x/tools v0.29.0) translate the working tree faithfully",
		"T-ENG: the engine's SSA -> SMT translation (/verif/engine), exercised by the must-fail selftest corpus",
		"T-SMT: an unsat answer of z3 4.8.12, z3 5.1.0 or cvc5 1.0.3",
		"T-AX: byte-string order/prefix/concatenation axioms of the SMT prelude (engine/cmd/kvc/smt.go)",
	}
	for _, k := range sortedKeys(trusted) {
		if strings.HasPrefix(k, "axiom:") {
			if ax := sp.Axioms[strings.TrimPrefix(k, "axiom:")]; ax != nil {
				tb = append(tb, "assumed "+k+" — "+ax.Body.String())
				continue
			}
		}
		tb = append(tb, "assumed: "+k)
	}
	usedIfaces := map[string]bool{}
	for _, o := range outs {
		if o.Gen != nil {
			for k := range o.Gen.ifaceUse {
				usedIfaces[k] = true
			}
		}
	}
	for _, k := range sortedKeys(usedIfaces) {
		tb = append(tb, "assumed interface / function-type contract at call sites: "+k)
	}
	for _, a := range assumedContracts {
		tb = append(tb, "assumed contract (body not verified): "+a)
	}
	boundedEv := []any{}
	if *tier == "thorough" {
		for _, b := range runBounded(prop) {
			boundedEv = append(boundedEv, b.ev)
			if !b.ok {
				violations++
				rp := writeReplay(prop, "bounded."+b.name, map[string]any{"obligation": "bounded stand-in " + b.name, "note": "a bounded differential check (not a proof obligation) failed on the real code; the failing statements are in the output", "go_test_output": b.out})
				fmt.Printf("VIOLATION property=%s replay=%s\n", prop, rp)
			}
		}
	}
	level, _ := propLevel(prop)
	ev := map[string]any{
		"property_id": prop,
		"tier":        *tier,
		"seed":        seed,
		"level":       level,
		"wall_s":      time.Since(t0).Seconds(),
		"violations":  violations,
		"coverage": map[string]any{
			"obligations":                   nOb,
			"discharged":                    nDis,
			"checker_cmd":                   "/verif/bin/kvc check " + prop + " --tier " + *tier,
			"trusted_base":                  tb,
			"explanation":                   propExplanation(prop),
			"samples":                       samples,
			"functions_under_contract":      fnEv,
			"by_solver":                     bySolver,
			"solver_ms":                     solverMs,
			"slowest":                       slow,
			"cover_queries":                 map[string]int{"asked": nCover, "satisfiable_or_undecided": nCoverOK},
			"known_findings":                knownEv,
			"bounded":                       boundedEv,
			"dropped_by_extraction":         droppedByExtraction,
			"uncontracted_callees_havocked": sortedKeys(havocked),
			"imprecise_operations":          sortedKeys(warnings),
			"contracts_from":                sp.Source,
			"contract_files":                sp.Files,
		},
		"assumptions": propAssumptions(prop, sp),
	}
	os.MkdirAll(filepath.Join(verifDir(), "evidence"), 0o755)
	b, _ := json.MarshalIndent(ev, "", " ")
	os.WriteFile(filepath.Join(verifDir(), "evidence", prop+".json"), b, 0o644)
	fmt.Printf("%s: %d functions, %d/%d obligations discharged, %d cover queries, %d known findings, %d violations, %.1fs\n",
		prop, len(specs), nDis, nOb, nCover, len(knownLines), violations, time.Since(t0).Seconds())
	if violations > 0 {
		return 1
	}
	return 0
}

// residual re-asks a failed obligation outside a known finding's carve-out.
func residual(o *funcOutcome, r *Result, f Finding, secs int) (ok bool, why string) {
	defer func() {
		if rec := recover(); rec != nil {
			ok, why = false, fmt.Sprint(rec)
		}
	}()
	g := o.Gen
	ce, err := parseCE(f.CarveOut)
	if err != nil {
		return false, err.Error()
	}
	vars := map[string]CV{}
	for k, v := range g.paramVals {
		vars[k] = v
	}
	for k, v := range g.ghostVals {
		vars[k] = v
	}
	env := &Env{g: g, st: g.entry, old: g.entry, vars: vars, pc: "true", hyp: true}
	c := env.tr(ce, false)
	ob := *r.Ob
	ob.PC = and(r.Ob.PC, not(c.S))
	ob.Name = r.Ob.Name + ".residual"
	res := solveAll(g, []*Oblig{&ob}, filepath.Dir(r.File), 1, 3, secs)
	if res[0].OK() {
		return true, res[0].Solver
	}
	return false, res[0].Verdict
}

func writeReplay(prop, name string, rec map[string]any) string {
	dir := filepath.Join(verifDir(), "replays", prop)
	os.MkdirAll(dir, 0o755)
	path := filepath.Join(dir, sanitize(name)+".json")
	rec["property"] = prop
	b, _ := json.MarshalIndent(rec, "", " ")
	os.WriteFile(path, b, 0o644)
	return path
}

func reportViolation(prop string, o *funcOutcome, r *Result) {
	rec := map[string]any{
		"obligation": r.Ob.Name, "kind": r.Ob.Kind, "clause": r.Ob.Clause, "function": r.Ob.Fn, "position": r.Ob.Pos,
		"verdict": r.Verdict, "solver": r.Solver, "solvers_tried": r.Tried, "smt_file": r.File, "solver_output": firstLines(r.Output, 30),
	}
	confirmed := false
	if r.Verdict != "error" {
		ps, note := concreteModel(o.Gen, r, 20)
		rec["concrete_model_pass"] = note
		if ps != nil {
			rec["model"] = ps
			ok, transcript, src := replayOnRealCode(o, r, ps)
			rec["replay_transcript"] = transcript
			rec["replay_test_source"] = src
			rec["replay_confirmed"] = ok
			confirmed = ok
		}
	}
	rp := writeReplay(prop, r.Ob.Name, rec)
	if confirmed {
		fmt.Printf("VIOLATION property=%s replay=%s\n", prop, rp)
	} else {
		fmt.Printf("VIOLATION property=%s replay=%s no-failing-input-found\n", prop, rp)
	}
	fmt.Printf("  failed obligation %s (%s, %s) — %s [%s]\n", r.Ob.Name, r.Verdict, r.Solver, r.Ob.Clause, r.Ob.Pos)
}

func cmdReplay(args []string) int {
	if len(args) != 1 {
		usage()
	}
	b, err := os.ReadFile(args[0])
	if err != nil {
		fmt.Fprintln(os.Stderr, err)
		return 2
	}
	var rec map[string]any
	if err := json.Unmarshal(b, &rec); err != nil {
		fmt.Fprintln(os.Stderr, err)
		return 2
	}
	fmt.Printf("obligation: %v\nclause: %v\nverdict: %v (%v)\n", rec["obligation"], rec["clause"], rec["verdict"], rec["solver"])
	src, _ := rec["replay_test_source"].(string)
	if src == "" {
		fmt.Println("no replay test was generated for this obligation (no concrete model); solver output:")
		fmt.Println(rec["solver_output"])
		return 1
	}
	ok, out := runReplayTest(src)
	fmt.Println(out)
	if ok {
		fmt.Println("REPLAY-CONFIRMED")
		return 1
	}
	fmt.Println("REPLAY-NOT-CONFIRMED")
	return 0
}

// Bounded stand-ins (thorough tier only; labelled bounded, never counted as proved): differential
// tests of /verif/bounded run against the real package through -overlay, for the parts of a
// property that no contract reaches yet.
type boundedRes struct {
	name string
	ok   bool
	out  string
	ev   map[string]any
}

var boundedTests = map[string][]string{
	"C03": {"TestKvcBoundedRowBatch"},
	"C04": {"TestKvcBoundedRewrite", "TestKvcBoundedRewriteText"},
	"C05": {"TestKvcBoundedAliasExpansion", "TestKvcBoundedAliasNames", "TestKvcBoundedRowBatch"},
	"C07": {"TestKvcBoundedOrder"},
	"C08": {"TestKvcBoundedLimit"},
	"C09": {"TestKvcBoundedAggregates"},
	"C11": {"TestKvcBoundedLimit"},
	"C12": {"TestKvcBoundedPutRemove"},
	"C15": {"TestKvcBoundedPrecedenceChains", "TestKvcBoundedParseRender"},
	"C16": {"TestKvcBoundedSpacing"},
}

var boundedBound = map[string]string{
	"TestKvcBoundedLimit":            "stores of {0, 1, 5, 33, 70} pairs, batch sizes {1, 2, 32}, six statements (plain, ordered by total orders, aggregated), offsets {0, 1, 2, 31, 32, 33, 69, 70, 71} x counts {0, 1, 2, 31, 32, 33, 100, MaxInt64}, row and batch mode against the slice of the unlimited result; DELETE ... LIMIT against the SELECT with the same limit (6 300 statements)",
	"TestKvcBoundedOrder":            "two stores (45 pairs with many ties; 10 pairs with integers around 2^53 and at the int64 limits), ten ORDER BY statements (text, integer, float, aggregate columns, ASC / DESC, up to three fields, a repeated field), batch sizes {1, 3, 32}, row and batch mode: permutation of the unordered result and adjacent rows in the documented order",
	"TestKvcBoundedPutRemove":        "every `put` of three pairs over four keys and four value forms (literal, key, upper(key), key + 'x'): 4 096 statements on a store with guarded slices, polled twice; a `remove` of two keys after every 64th",
	"TestKvcBoundedRewriteText":      "every `+` chain of at most four operands over {'a', 'b', key, upper(value), str(int(value)), lower(key)} in all parenthesisations (6 948 expressions x 3 pairs), evaluated before and after ExpressionOptimizer",
	"TestKvcBoundedSpacing":          "every sequence of at most four tokens from a pool of 20 token texts, each rendered with every choice of nothing / blank / tab-newline run in its optional gaps (4.4 million texts)",
	"TestKvcBoundedPrecedenceChains": "every unparenthesised chain of at most four binary operators (69 904 texts) against a split-at-the-weakest-operator oracle; print/re-parse of the accepted ones",
	"TestKvcBoundedParseRender":      "30 000 random typed trees of depth at most 4 (seed 15) with IN, BETWEEN, !, calls and field access, each printed with minimal, random and full parenthesisation and random letter case; print/re-parse of the accepted ones (about 43 000 statements)",
}

func runBounded(prop string) []boundedRes {
	tests := boundedTests[prop]
	if len(tests) == 0 {
		return nil
	}
	dir, err := os.MkdirTemp(filepath.Join(verifDir(), "out"), "bounded-")
	if err != nil {
		os.MkdirAll(filepath.Join(verifDir(), "out"), 0o755)
		dir, _ = os.MkdirTemp(filepath.Join(verifDir(), "out"), "bounded-")
	}
	defer os.RemoveAll(dir)
	repl := map[string]string{}
	files, _ := filepath.Glob(filepath.Join(verifDir(), "bounded", "*_test.go"))
	for _, f := range files {
		repl[filepath.Join(repoDir(), filepath.Base(f))] = f
	}
	ov, _ := json.Marshal(map[string]any{"Replace": repl})
	ovf := filepath.Join(dir, "overlay.json")
	os.WriteFile(ovf, ov, 0o644)
	var res []boundedRes
	for _, tn := range tests {
		ctx, cancel := context.WithTimeout(context.Background(), 180*time.Second)
		cmd := exec.CommandContext(ctx, "bash", "-c", "cd "+repoDir()+" && go test -mod=mod -overlay "+ovf+" -vet=off -count=1 -timeout 120s -run '^"+tn+"$' .")
		cmd.Env = append(os.Environ(), "GOFLAGS=-mod=mod", "GOPROXY=off", "GOSUMDB=off", "GOTOOLCHAIN=local")
		var out bytes.Buffer
		cmd.Stdout, cmd.Stderr = &out, &out
		err := cmd.Run()
		cancel()
		o := out.String()
		if len(o) > 8000 {
			o = o[:8000] + "\n...[truncated]"
		}
		ok := err == nil && strings.Contains(o, "ok ") && !strings.Contains(o, "--- FAIL")
		bound := "stores of at most 40 pairs, batch sizes {1,2,3,5,7,32}, the statement / expression lists of the test (C04: every arithmetic tree of four shapes over five leaves, 78 400 expressions x 5 pairs)"
		if b, ok := boundedBound[tn]; ok {
			bound = b
		}
		res = append(res, boundedRes{name: tn, ok: ok, out: o, ev: map[string]any{
			"check":  tn + " (/verif/bounded, injected with go test -overlay)",
			"kind":   "bounded differential test on the real package: NOT a proof",
			"bound":  bound,
			"result": map[bool]string{true: "pass", false: "FAIL"}[ok],
		}})
	}
	return res
}

var retOrdinalRE = regexp.MustCompile(`@ret[0-9]+$`)

func stripRetOrdinal(name string) string { return retOrdinalRE.ReplaceAllString(name, "") }
