package main

import (
	"fmt"
	"os"
	"path/filepath"
	"regexp"
	"sort"
	"strconv"
	"strings"
)

// ---------- contract expression AST ----------

type CE struct {
	Op   string // ident, num, str, char, call, field, index, slice, cast, istype, old, un, bin, forall, exists
	Name string // identifier / operator / field name / type text
	Args []*CE
	Vars []Binder // quantifier binders
	Pos  int
}

type Binder struct{ Name, Sort string }

func (e *CE) String() string {
	switch e.Op {
	case "ident", "num":
		return e.Name
	case "str":
		return strconv.Quote(e.Name)
	case "char":
		return "'" + e.Name + "'"
	case "call":
		var as []string
		for _, a := range e.Args[1:] {
			as = append(as, a.String())
		}
		return e.Args[0].String() + "(" + strings.Join(as, ", ") + ")"
	case "field":
		return e.Args[0].String() + "." + e.Name
	case "index":
		return e.Args[0].String() + "[" + e.Args[1].String() + "]"
	case "cast":
		return e.Args[0].String() + ".(" + e.Name + ")"
	case "old":
		return "old(" + e.Args[0].String() + ")"
	case "un":
		return e.Name + e.Args[0].String()
	case "bin":
		return "(" + e.Args[0].String() + " " + e.Name + " " + e.Args[1].String() + ")"
	case "forall", "exists":
		var bs []string
		for _, b := range e.Vars {
			bs = append(bs, b.Name+" "+b.Sort)
		}
		return e.Op + " " + strings.Join(bs, ", ") + " :: " + e.Args[0].String()
	}
	return "?" + e.Op
}

type ctok struct {
	kind string // id num str char op eof
	text string
	pos  int
}

func clex(src string) ([]ctok, error) {
	var toks []ctok
	i := 0
	ops := []string{"<==>", "==>", "::", "==", "!=", "<=", ">=", "&&", "||", "(", ")", "[", "]", ".", ",", "+", "-", "*", "/", "%", "<", ">", "!", ":", "{", "}"}
	for i < len(src) {
		c := src[i]
		switch {
		case c == ' ' || c == '\t' || c == '\n':
			i++
		case c == '_' || c >= 'a' && c <= 'z' || c >= 'A' && c <= 'Z':
			j := i
			for j < len(src) && (src[j] == '_' || src[j] == '$' || src[j] == '#' || src[j] >= 'a' && src[j] <= 'z' || src[j] >= 'A' && src[j] <= 'Z' || src[j] >= '0' && src[j] <= '9') {
				j++
			}
			toks = append(toks, ctok{"id", src[i:j], i})
			i = j
		case c >= '0' && c <= '9':
			j := i
			for j < len(src) && src[j] >= '0' && src[j] <= '9' {
				j++
			}
			toks = append(toks, ctok{"num", src[i:j], i})
			i = j
		case c == '"':
			j := i + 1
			for j < len(src) && src[j] != '"' {
				if src[j] == '\\' {
					j++
				}
				j++
			}
			if j >= len(src) {
				return nil, fmt.Errorf("unterminated string at %d", i)
			}
			v, err := strconv.Unquote(src[i : j+1])
			if err != nil {
				return nil, err
			}
			toks = append(toks, ctok{"str", v, i})
			i = j + 1
		case c == '\'':
			j := i + 1
			for j < len(src) && src[j] != '\'' {
				if src[j] == '\\' {
					j++
				}
				j++
			}
			if j >= len(src) {
				return nil, fmt.Errorf("unterminated char at %d", i)
			}
			r, _, _, err := strconv.UnquoteChar(src[i+1:j], '\'')
			if err != nil {
				return nil, err
			}
			toks = append(toks, ctok{"char", strconv.Itoa(int(r)), i})
			i = j + 1
		default:
			found := false
			for _, op := range ops {
				if strings.HasPrefix(src[i:], op) {
					toks = append(toks, ctok{"op", op, i})
					i += len(op)
					found = true
					break
				}
			}
			if !found {
				return nil, fmt.Errorf("unexpected character %q at %d in %q", c, i, src)
			}
		}
	}
	toks = append(toks, ctok{"eof", "", len(src)})
	return toks, nil
}

type cparser struct {
	toks []ctok
	p    int
	src  string
}

func parseCE(src string) (e *CE, err error) {
	toks, err := clex(src)
	if err != nil {
		return nil, err
	}
	p := &cparser{toks: toks, src: src}
	defer func() {
		if r := recover(); r != nil {
			if s, ok := r.(string); ok {
				err = fmt.Errorf("%s in %q", s, src)
				return
			}
			panic(r)
		}
	}()
	e = p.expr()
	if p.peek().kind != "eof" {
		panic(fmt.Sprintf("unexpected %q at %d", p.peek().text, p.peek().pos))
	}
	return e, nil
}

func (p *cparser) peek() ctok { return p.toks[p.p] }
func (p *cparser) next() ctok { t := p.toks[p.p]; p.p++; return t }
func (p *cparser) isOp(s string) bool {
	t := p.peek()
	return t.kind == "op" && t.text == s
}
func (p *cparser) accept(s string) bool {
	if p.isOp(s) {
		p.p++
		return true
	}
	return false
}
func (p *cparser) expect(s string) {
	if !p.accept(s) {
		panic(fmt.Sprintf("expected %q at %d, got %q", s, p.peek().pos, p.peek().text))
	}
}

func (p *cparser) expr() *CE {
	t := p.peek()
	if t.kind == "id" && (t.text == "forall" || t.text == "exists") {
		p.next()
		q := &CE{Op: t.text, Pos: t.pos}
		for {
			n := p.next()
			if n.kind != "id" {
				panic("binder name expected")
			}
			q.Vars = append(q.Vars, Binder{n.text, p.typeText()})
			if !p.accept(",") {
				break
			}
		}
		p.expect("::")
		q.Args = []*CE{p.expr()}
		return q
	}
	return p.iff()
}

func (p *cparser) iff() *CE {
	l := p.impl()
	for p.isOp("<==>") {
		t := p.next()
		r := p.impl()
		l = &CE{Op: "bin", Name: "<==>", Args: []*CE{l, r}, Pos: t.pos}
	}
	return l
}

func (p *cparser) impl() *CE {
	l := p.or()
	if p.isOp("==>") {
		t := p.next()
		var r *CE
		if pk := p.peek(); pk.kind == "id" && (pk.text == "forall" || pk.text == "exists") {
			r = p.expr()
		} else {
			r = p.impl()
		}
		return &CE{Op: "bin", Name: "==>", Args: []*CE{l, r}, Pos: t.pos}
	}
	return l
}

func (p *cparser) binl(sub func() *CE, ops ...string) *CE {
	l := sub()
	for {
		matched := false
		for _, op := range ops {
			if p.isOp(op) {
				t := p.next()
				r := sub()
				l = &CE{Op: "bin", Name: op, Args: []*CE{l, r}, Pos: t.pos}
				matched = true
				break
			}
		}
		if !matched {
			return l
		}
	}
}

func (p *cparser) or() *CE  { return p.binl(p.and, "||") }
func (p *cparser) and() *CE { return p.binl(p.cmp, "&&") }
func (p *cparser) cmp() *CE {
	l := p.add()
	for _, op := range []string{"==", "!=", "<=", ">=", "<", ">"} {
		if p.isOp(op) {
			t := p.next()
			r := p.add()
			return &CE{Op: "bin", Name: op, Args: []*CE{l, r}, Pos: t.pos}
		}
	}
	return l
}
func (p *cparser) add() *CE { return p.binl(p.mul, "+", "-") }
func (p *cparser) mul() *CE { return p.binl(p.unary, "*", "/", "%") }

func (p *cparser) unary() *CE {
	if p.isOp("!") || p.isOp("-") {
		t := p.next()
		return &CE{Op: "un", Name: t.text, Args: []*CE{p.unary()}, Pos: t.pos}
	}
	return p.postfix()
}

// typeText parses a Go-ish type or sort: *T, []T, T, (Array Int T)
func (p *cparser) typeText() string {
	if p.accept("*") {
		return "*" + p.typeText()
	}
	if p.isOp("[") {
		p.next()
		p.expect("]")
		return "[]" + p.typeText()
	}
	if p.isOp("(") { // raw SMT sort
		d := 0
		var parts []string
		for {
			t := p.next()
			if t.kind == "eof" {
				panic("unterminated sort")
			}
			parts = append(parts, t.text)
			if t.text == "(" {
				d++
			}
			if t.text == ")" {
				d--
				if d == 0 {
					break
				}
			}
		}
		s := strings.Join(parts, " ")
		s = strings.ReplaceAll(s, "( ", "(")
		s = strings.ReplaceAll(s, " )", ")")
		return s
	}
	t := p.next()
	if t.kind != "id" {
		panic(fmt.Sprintf("type expected at %d", t.pos))
	}
	n := t.text
	for p.isOp(".") {
		p.next()
		n += "." + p.next().text
	}
	return n
}

func (p *cparser) postfix() *CE {
	e := p.primary()
	for {
		switch {
		case p.isOp("."):
			t := p.next()
			if p.accept("(") {
				ty := p.typeText()
				p.expect(")")
				e = &CE{Op: "cast", Name: ty, Args: []*CE{e}, Pos: t.pos}
			} else {
				n := p.next()
				if n.kind != "id" {
					panic(fmt.Sprintf("field name expected at %d", n.pos))
				}
				e = &CE{Op: "field", Name: n.text, Args: []*CE{e}, Pos: t.pos}
			}
		case p.isOp("["):
			t := p.next()
			i := p.expr()
			p.expect("]")
			e = &CE{Op: "index", Args: []*CE{e, i}, Pos: t.pos}
		case p.isOp("("):
			t := p.next()
			args := []*CE{e}
			if !p.isOp(")") {
				for {
					// a type argument (for is/as): *T or []T
					if p.isOp("*") || p.isOp("[") {
						ty := p.typeText()
						args = append(args, &CE{Op: "type", Name: ty})
					} else {
						args = append(args, p.expr())
					}
					if !p.accept(",") {
						break
					}
				}
			}
			p.expect(")")
			if e.Op == "ident" && e.Name == "old" && len(args) == 2 {
				e = &CE{Op: "old", Args: []*CE{args[1]}, Pos: t.pos}
			} else {
				e = &CE{Op: "call", Args: args, Pos: t.pos}
			}
		default:
			return e
		}
	}
}

func (p *cparser) primary() *CE {
	t := p.next()
	switch t.kind {
	case "id":
		return &CE{Op: "ident", Name: t.text, Pos: t.pos}
	case "num":
		return &CE{Op: "num", Name: t.text, Pos: t.pos}
	case "str":
		return &CE{Op: "str", Name: t.text, Pos: t.pos}
	case "char":
		return &CE{Op: "num", Name: t.text, Pos: t.pos}
	case "op":
		if t.text == "(" {
			e := p.expr()
			p.expect(")")
			return e
		}
	}
	panic(fmt.Sprintf("unexpected %q at %d", t.text, t.pos))
}

// ---------- contract files ----------

type Clause struct {
	Kind  string // requires ensures invariant assert
	Label string
	Props []string
	Text  string
	E     *CE
	Line  string // file:line
}

type GhostParam struct{ Name, Sort string }

// GhostStmt is a ghost statement attached to a program point: the end of a loop body (atend)
// or every return (atreturn). "assert" is a proof obligation; "set L := R" updates ghost state.
type GhostStmt struct {
	Kind   string // assert | set
	Clause *Clause
	LHS    *CE
	RHS    *CE
	Text   string
}

type LoopSpec struct {
	AtEnd    []*GhostStmt
	Ord      int
	Var      string
	Invs     []*Clause
	Decr     *Clause
	Uses     []*CE
	NoAuto   bool
	Unchange []*CE
}

type ParamDecl struct{ Name, Type string }

// ClosureSpec: "closure N implements FuncType couple <local> = <ghostvar>": the N-th closure
// of the function is passed where FuncType is expected; while it is in the callee's hands the
// captured local is represented by the ghost variable the func-type contract speaks about.
type ClosureSpec struct {
	Ord    int
	Impl   string
	Couple [][2]string
}

type FuncSpec struct {
	Key      string
	Kind     string // func | iface | functype | lemma | axiom | define
	Params   []ParamDecl
	Results  []ParamDecl
	Ghosts   []GhostParam
	Requires []*Clause
	Ensures  []*Clause
	Assigns  []*CE
	HasAsg   bool
	Pure     bool
	Trusted  string // reason, if the contract is assumed and the body not verified
	Impl     string // "Iface.Method" this method implements
	Loops    map[int]*LoopSpec
	Uses     []*CE // axiom / lemma instantiations assumed at entry
	UsesRet  []*CE // ... assumed at every return (post-state, results in scope)
	Closures map[int]*ClosureSpec
	Defines  []*Clause // "defines r == f(args)": names the result of a deterministic, heap-independent function
	Props    []string
	Body     *CE    // define / axiom body
	RetSort  string // define result sort
	File     string
	Line     int
	Opaque   bool
	Inline   bool // callers execute the body instead of using the contract
	Cex      bool // axiom used only when searching for counterexample models
	Havoc    []string
	Notes    []string
	AtRet    []*GhostStmt
	OnAppend []*AppendSpec
	IfaceAssumed []string // labels of interface-contract clauses that are definitional for this implementation (assumed at its returns, not proved)
	SplitLatch bool // invariant preservation is checked per path into the loop latch, not on the merged state
}

// AppendSpec: "onappend T assert[..] label: P(elem)" - an assertion about every value of type T the
// function appends to a slice, checked at the append (in the context of that branch alone).
type AppendSpec struct {
	Type   string
	Clause *Clause
	Use    *CE // "onappend T use axiom(args)": an axiom / lemma instance at the appended value
}

type Specs struct {
	Funcs     map[string]*FuncSpec // func, iface, functype
	Defines   map[string]*FuncSpec
	Axioms    map[string]*FuncSpec
	Lemmas    map[string]*FuncSpec
	GhostFld  map[string][2]string // name -> (owner type text, sort)
	GhostVar  map[string]string    // name -> sort
	SpecFuns  map[string]*SpecFun
	SMT       []string // verbatim prelude pieces from spec/*.smt2
	Files     []string
	Order     []string
	Source    string // "repo" or "mirror"
	PropFuncs map[string][]string
}

type SpecFun struct {
	Name    string
	Args    []string
	Ret     string
	Declare bool // declared by a contract file: the engine emits the declare-fun
}

var reProps = regexp.MustCompile(`^\[([A-Z0-9, ]+)\]`)

func splitProps(s string) ([]string, string) {
	m := reProps.FindStringSubmatch(s)
	if m == nil {
		return nil, s
	}
	var ps []string
	for _, p := range strings.Split(m[1], ",") {
		ps = append(ps, strings.TrimSpace(p))
	}
	return ps, strings.TrimSpace(s[len(m[0]):])
}

// parseSig parses "name(params) (results)" / "(recv) name(params) results".
func parseSig(text string) (key string, params, results []ParamDecl, rest string, err error) {
	s := strings.TrimSpace(text)
	recv := ""
	if strings.HasPrefix(s, "(") { // receiver
		i := strings.Index(s, ")")
		r := strings.Fields(s[1:i])
		if len(r) != 2 {
			return "", nil, nil, "", fmt.Errorf("bad receiver in %q", text)
		}
		params = append(params, ParamDecl{r[0], r[1]})
		if strings.HasPrefix(r[1], "*") {
			recv = "(" + r[1] + ")."
		} else {
			recv = "(" + r[1] + ")."
		}
		s = strings.TrimSpace(s[i+1:])
	}
	i := strings.Index(s, "(")
	if i < 0 {
		return "", nil, nil, "", fmt.Errorf("missing ( in %q", text)
	}
	name := strings.TrimSpace(s[:i])
	key = recv + name
	j := matchParen(s, i)
	if j < 0 {
		return "", nil, nil, "", fmt.Errorf("unbalanced ( in %q", text)
	}
	ps, err := parseParamList(s[i+1 : j])
	if err != nil {
		return "", nil, nil, "", err
	}
	params = append(params, ps...)
	s = strings.TrimSpace(s[j+1:])
	if strings.HasPrefix(s, "(") {
		j := matchParen(s, 0)
		results, err = parseParamList(s[1:j])
		if err != nil {
			return "", nil, nil, "", err
		}
		s = strings.TrimSpace(s[j+1:])
	} else if s != "" && !strings.HasPrefix(s, "=") && !strings.HasPrefix(s, ":") && !strings.HasPrefix(s, "implements") {
		f := strings.Fields(s)
		results = []ParamDecl{{"result", f[0]}}
		s = strings.TrimSpace(s[len(f[0]):])
	}
	return key, params, results, s, nil
}

func matchParen(s string, i int) int {
	d := 0
	for j := i; j < len(s); j++ {
		switch s[j] {
		case '(':
			d++
		case ')':
			d--
			if d == 0 {
				return j
			}
		}
	}
	return -1
}

// parseParamList parses "a, b T, c U" (Go-style grouping; a lone type gets name "_i").
func parseParamList(s string) ([]ParamDecl, error) {
	s = strings.TrimSpace(s)
	if s == "" {
		return nil, nil
	}
	var parts []string
	d, last := 0, 0
	for i, c := range s {
		switch c {
		case '(', '[':
			d++
		case ')', ']':
			d--
		case ',':
			if d == 0 {
				parts = append(parts, strings.TrimSpace(s[last:i]))
				last = i + 1
			}
		}
	}
	parts = append(parts, strings.TrimSpace(s[last:]))
	out := make([]ParamDecl, len(parts))
	for i := len(parts) - 1; i >= 0; i-- {
		f := strings.SplitN(parts[i], " ", 2)
		if len(f) == 2 {
			out[i] = ParamDecl{f[0], strings.TrimSpace(f[1])}
		} else if i+1 < len(parts) && out[i+1].Type != "" && isIdent(f[0]) && !looksLikeType(f[0]) {
			out[i] = ParamDecl{f[0], out[i+1].Type}
		} else {
			out[i] = ParamDecl{fmt.Sprintf("_%d", i), f[0]}
		}
	}
	return out, nil
}

func isIdent(s string) bool {
	for i, c := range s {
		if !(c == '_' || c >= 'a' && c <= 'z' || c >= 'A' && c <= 'Z' || i > 0 && c >= '0' && c <= '9') {
			return false
		}
	}
	return s != ""
}

func looksLikeType(s string) bool {
	switch s {
	case "int", "bool", "string", "error", "any", "byte", "int64", "float64", "Int", "Bool", "B", "NB", "Any", "Slc":
		return true
	}
	return false
}

func loadSpecs(repo, verifDir string) (*Specs, error) {
	sp := &Specs{Funcs: map[string]*FuncSpec{}, Defines: map[string]*FuncSpec{}, Axioms: map[string]*FuncSpec{}, Lemmas: map[string]*FuncSpec{},
		GhostFld: map[string][2]string{}, GhostVar: map[string]string{}, SpecFuns: map[string]*SpecFun{}, PropFuncs: map[string][]string{}}
	files, _ := filepath.Glob(filepath.Join(repo, "contracts_verif*.go"))
	sp.Source = "repo"
	if len(files) == 0 || os.Getenv("KVC_CONTRACTS") == "mirror" {
		files, _ = filepath.Glob(filepath.Join(verifDir, "contracts", "contracts_verif*.go"))
		sp.Source = "mirror"
	}
	if len(files) == 0 {
		return nil, fmt.Errorf("no contract files (contracts_verif*.go) in %s or %s/contracts", repo, verifDir)
	}
	sort.Strings(files)
	sp.Files = files
	for _, f := range files {
		if err := sp.parseFile(f); err != nil {
			return nil, err
		}
	}
	smts, _ := filepath.Glob(filepath.Join(verifDir, "spec", "*.smt2"))
	sort.Strings(smts)
	for _, f := range smts {
		b, err := os.ReadFile(f)
		if err != nil {
			return nil, err
		}
		sp.SMT = append(sp.SMT, "; ---- "+filepath.Base(f)+"\n"+string(b))
		for _, ln := range strings.Split(string(b), "\n") {
			ln = strings.TrimSpace(ln)
			if strings.HasPrefix(ln, "; sig:") {
				sf, err := parseSpecFunSig(strings.TrimSpace(strings.TrimPrefix(ln, "; sig:")))
				if err != nil {
					return nil, fmt.Errorf("%s: %v", f, err)
				}
				sp.SpecFuns[sf.Name] = sf
			}
		}
	}
	for _, sf := range []string{"le(B,B) Bool", "lt(B,B) Bool", "pre(B,B) Bool", "cat(B,B) B", "blen(B) Int", "cmp(B,B) Int", "dyn(Int) Int", "kindcode(Any) Int",
		"trim(B) B", "lead(B) Int", "trail(B) Int", "sub(B,Int,Int) B", "at(B,Int) Int", "chr(Int) B", "lower(B) B", "upper(B) B", "itoa(Int) B", "parseInt(B) Int", "parseIntOk(B) Bool", "parseFloatOk(B) Bool", "parseFloat(B) F64", "tdiv(Int,Int) Int", "tmod(Int,Int) Int", "be32(Int) B", "ftoa(F64) B", "reMatch(B,B) Bool", "reOk(B) Bool", "repat(Int) B", "splitS(Int) B", "splitSep(Int) B", "splitN(Int) Int",
		"flt(F64,F64) Bool", "fle(F64,F64) Bool", "feq(F64,F64) Bool", "fadd(F64,F64) F64", "fsub(F64,F64) F64", "fmul(F64,F64) F64", "fdiv(F64,F64) F64", "i2f(Int) F64", "f2i(F64) Int"} {
		f, _ := parseSpecFunSig(sf)
		sp.SpecFuns[f.Name] = f
	}
	for _, k := range sp.Order {
		fs := sp.Funcs[k]
		if fs == nil {
			continue
		}
		for _, p := range fs.Props {
			sp.PropFuncs[p] = append(sp.PropFuncs[p], k)
		}
	}
	return sp, nil
}

func parseSpecFunSig(s string) (*SpecFun, error) {
	i := strings.Index(s, "(")
	j := strings.LastIndex(s, ")")
	if i < 0 || j < i {
		return nil, fmt.Errorf("bad spec function signature %q", s)
	}
	sf := &SpecFun{Name: strings.TrimSpace(s[:i]), Ret: strings.TrimSpace(s[j+1:])}
	for _, a := range strings.Split(s[i+1:j], ",") {
		if a = strings.TrimSpace(a); a != "" {
			sf.Args = append(sf.Args, a)
		}
	}
	return sf, nil
}

func (sp *Specs) parseFile(path string) error {
	b, err := os.ReadFile(path)
	if err != nil {
		return err
	}
	var cur *FuncSpec
	var curLoop *LoopSpec
	lines := strings.Split(string(b), "\n")
	// join continuation lines: "//@   ..." followed by "//@     | more"
	type ln struct {
		text string
		no   int
	}
	var ls []ln
	for i, raw := range lines {
		t := strings.TrimSpace(raw)
		if !strings.HasPrefix(t, "//@") {
			continue
		}
		t = strings.TrimSpace(strings.TrimPrefix(t, "//@"))
		if c := strings.Index(t, " //"); c >= 0 { // trailing comment
			t = strings.TrimSpace(t[:c])
		}
		if t == "" {
			continue
		}
		if strings.HasPrefix(t, "|") && len(ls) > 0 {
			ls[len(ls)-1].text += " " + strings.TrimSpace(t[1:])
			continue
		}
		ls = append(ls, ln{t, i + 1})
	}
	base := filepath.Base(path)
	for _, l := range ls {
		kw, rest := l.text, ""
		if i := strings.IndexAny(l.text, " \t["); i >= 0 {
			kw, rest = l.text[:i], strings.TrimSpace(l.text[i:])
		}
		where := fmt.Sprintf("%s:%d", base, l.no)
		errf := func(format string, a ...any) error {
			return fmt.Errorf("%s: %s", where, fmt.Sprintf(format, a...))
		}
		mkClause := func(kind string) (*Clause, error) {
			props, txt := splitProps(rest)
			label := ""
			if m := regexp.MustCompile(`^([A-Za-z0-9_.]+):\s`).FindStringSubmatch(txt); m != nil && !strings.Contains(m[1], "::") {
				label = m[1]
				txt = strings.TrimSpace(txt[len(m[0]):])
			}
			e, err := parseCE(txt)
			if err != nil {
				return nil, errf("%v", err)
			}
			return &Clause{Kind: kind, Label: label, Props: props, Text: txt, E: e, Line: where}, nil
		}
		switch kw {
		case "func", "iface", "functype", "lemma":
			key, ps, rs, tail, err := parseSig(rest)
			if err != nil {
				return errf("%v", err)
			}
			if kw == "iface" && strings.HasPrefix(key, "(") {
				// iface (s Storage) Get(...)  ->  key "Storage.Get", first parameter = the receiver
				key = strings.Replace(strings.TrimPrefix(key, "("), ").", ".", 1)
			}
			cur = &FuncSpec{Key: key, Kind: kw, Params: ps, Results: rs, Loops: map[int]*LoopSpec{}, File: base, Line: l.no}
			curLoop = nil
			if strings.HasPrefix(tail, "implements") {
				cur.Impl = strings.TrimSpace(strings.TrimPrefix(tail, "implements"))
			}
			if kw == "lemma" {
				if _, dup := sp.Lemmas[key]; dup {
					return errf("duplicate lemma %s", key)
				}
				sp.Lemmas[key] = cur
			} else {
				if _, dup := sp.Funcs[key]; dup {
					return errf("duplicate contract for %s", key)
				}
				sp.Funcs[key] = cur
			}
			sp.Order = append(sp.Order, key)
		case "define":
			// define name(params) Sort = expr
			eqi := strings.Index(rest, " = ")
			if eqi < 0 {
				return errf("define needs ' = '")
			}
			key, ps, rs, _, err := parseSig(rest[:eqi])
			if err != nil {
				return errf("%v", err)
			}
			e, err := parseCE(rest[eqi+3:])
			if err != nil {
				return errf("%v", err)
			}
			d := &FuncSpec{Key: key, Kind: "define", Params: ps, Body: e, File: base, Line: l.no}
			if len(rs) == 1 {
				d.RetSort = rs[0].Type
			}
			if prev, dup := sp.Defines[key]; dup {
				return errf("duplicate define %s (also %s:%d)", key, prev.File, prev.Line)
			}
			if _, dup := sp.SpecFuns[key]; dup {
				return errf("define %s has the name of a spec function", key)
			}
			sp.Defines[key] = d
			cur, curLoop = nil, nil
		case "axiom", "cexaxiom":
			// axiom name(params): expr
			ci := strings.Index(rest, "):")
			if ci < 0 {
				return errf("axiom needs 'name(params): expr'")
			}
			key, ps, _, _, err := parseSig(rest[:ci+1])
			if err != nil {
				return errf("%v", err)
			}
			e, err := parseCE(rest[ci+2:])
			if err != nil {
				return errf("%v", err)
			}
			if prev, dup := sp.Axioms[key]; dup {
				return errf("duplicate axiom %s (also %s:%d)", key, prev.File, prev.Line)
			}
			sp.Axioms[key] = &FuncSpec{Key: key, Kind: "axiom", Params: ps, Body: e, File: base, Line: l.no, Cex: kw == "cexaxiom"}
			cur, curLoop = nil, nil
		case "ghostfield":
			// ghostfield name(OwnerType) Sort
			sf, err := parseSpecFunSig(rest)
			if err != nil || len(sf.Args) != 1 {
				return errf("ghostfield needs 'name(Owner) Sort'")
			}
			sp.GhostFld[sf.Name] = [2]string{sf.Args[0], sf.Ret}
		case "ghostvar":
			f := strings.Fields(rest)
			if len(f) != 2 {
				return errf("ghostvar needs 'name Sort'")
			}
			sp.GhostVar[f[0]] = f[1]
		case "specfun":
			sf, err := parseSpecFunSig(rest)
			if err != nil {
				return errf("%v", err)
			}
			sf.Declare = true
			if _, dup := sp.SpecFuns[sf.Name]; dup {
				return errf("duplicate spec function %s", sf.Name)
			}
			if _, dup := sp.Defines[sf.Name]; dup {
				return errf("spec function %s has the name of a define", sf.Name)
			}
			sp.SpecFuns[sf.Name] = sf
		default:
			if cur == nil {
				return errf("clause %q outside a func block", kw)
			}
			switch kw {
			case "ghost":
				ps, err := parseParamList(rest)
				if err != nil {
					return errf("%v", err)
				}
				for _, p := range ps {
					cur.Ghosts = append(cur.Ghosts, GhostParam{p.Name, p.Type})
				}
			case "requires":
				c, err := mkClause("requires")
				if err != nil {
					return err
				}
				cur.Requires = append(cur.Requires, c)
			case "ensures":
				c, err := mkClause("ensures")
				if err != nil {
					return err
				}
				cur.Ensures = append(cur.Ensures, c)
			case "defines":
				c, err := mkClause("defines")
				if err != nil {
					return err
				}
				cur.Defines = append(cur.Defines, c)
			case "assigns":
				cur.HasAsg = true
				if rest != "nothing" {
					for _, part := range splitTop(rest) {
						e, err := parseCE(part)
						if err != nil {
							return errf("%v", err)
						}
						cur.Assigns = append(cur.Assigns, e)
					}
				}
			case "ifaceassumed":
				cur.IfaceAssumed = append(cur.IfaceAssumed, strings.Fields(strings.ReplaceAll(rest, ",", " "))...)
			case "splitlatch":
				cur.SplitLatch = true
			case "pure":
				cur.Pure = true
			case "inline":
				cur.Inline = true
			case "trusted":
				cur.Trusted = rest
				if rest == "" {
					cur.Trusted = "assumed"
				}
			case "props":
				cur.Props = append(cur.Props, strings.Fields(strings.ReplaceAll(rest, ",", " "))...)
			case "note":
				cur.Notes = append(cur.Notes, rest)
			case "closure":
				// closure N implements FT couple a = g, b = h
				f := strings.Fields(rest)
				if len(f) < 3 || f[1] != "implements" {
					return errf("closure needs 'N implements FuncType [couple x = ghost, ...]'")
				}
				n, err := strconv.Atoi(f[0])
				if err != nil {
					return errf("closure ordinal: %v", err)
				}
				cs := &ClosureSpec{Ord: n, Impl: f[2]}
				if i := strings.Index(rest, " couple "); i >= 0 {
					for _, pr := range strings.Split(rest[i+8:], ",") {
						kv := strings.Split(pr, "=")
						if len(kv) != 2 {
							return errf("couple needs 'local = ghostvar'")
						}
						cs.Couple = append(cs.Couple, [2]string{strings.TrimSpace(kv[0]), strings.TrimSpace(kv[1])})
					}
				}
				if cur.Closures == nil {
					cur.Closures = map[int]*ClosureSpec{}
				}
				cur.Closures[n] = cs
			case "useatret":
				e, err := parseCE(rest)
				if err != nil {
					return errf("%v", err)
				}
				cur.UsesRet = append(cur.UsesRet, e)
			case "use":
				e, err := parseCE(rest)
				if err != nil {
					return errf("%v", err)
				}
				if curLoop != nil {
					curLoop.Uses = append(curLoop.Uses, e)
				} else {
					cur.Uses = append(cur.Uses, e)
				}
			case "loop":
				// loop N (var) [noauto]
				f := strings.Fields(rest)
				if len(f) < 1 {
					return errf("loop needs an ordinal")
				}
				n, err := strconv.Atoi(f[0])
				if err != nil {
					return errf("loop ordinal: %v", err)
				}
				curLoop = cur.Loops[n]
				if curLoop == nil {
					curLoop = &LoopSpec{Ord: n}
					cur.Loops[n] = curLoop
				}
				for _, x := range f[1:] {
					if x == "noauto" {
						curLoop.NoAuto = true
					} else if strings.HasPrefix(x, "(") {
						curLoop.Var = strings.Trim(x, "()")
					}
				}
			case "invariant":
				if curLoop == nil {
					return errf("invariant outside a loop")
				}
				c, err := mkClause("invariant")
				if err != nil {
					return err
				}
				curLoop.Invs = append(curLoop.Invs, c)
			case "decreases":
				if curLoop == nil {
					return errf("decreases outside a loop")
				}
				c, err := mkClause("decreases")
				if err != nil {
					return err
				}
				curLoop.Decr = c
			case "onappend":
				f := strings.SplitN(rest, " ", 2)
				if len(f) == 2 && strings.HasPrefix(strings.TrimSpace(f[1]), "use ") {
					e, err := parseCE(strings.TrimSpace(strings.TrimPrefix(strings.TrimSpace(f[1]), "use ")))
					if err != nil {
						return errf("%v", err)
					}
					cur.OnAppend = append(cur.OnAppend, &AppendSpec{Type: f[0], Use: e})
					break
				}
				if len(f) != 2 || !strings.HasPrefix(strings.TrimSpace(f[1]), "assert") {
					return errf("onappend needs 'T assert ...' or 'T use axiom(...)'")
				}
				ty := f[0]
				rest = strings.TrimSpace(strings.TrimPrefix(strings.TrimSpace(f[1]), "assert"))
				c, err := mkClause("assert")
				if err != nil {
					return err
				}
				cur.OnAppend = append(cur.OnAppend, &AppendSpec{Type: ty, Clause: c})
			case "atend", "atreturn":
				var gs *GhostStmt
				if strings.HasPrefix(rest, "set ") {
					parts := strings.SplitN(strings.TrimPrefix(rest, "set "), ":=", 2)
					if len(parts) != 2 {
						return errf("ghost update needs 'set L := R'")
					}
					lhs, err := parseCE(strings.TrimSpace(parts[0]))
					if err != nil {
						return errf("%v", err)
					}
					rhs, err := parseCE(strings.TrimSpace(parts[1]))
					if err != nil {
						return errf("%v", err)
					}
					gs = &GhostStmt{Kind: "set", LHS: lhs, RHS: rhs, Text: rest}
				} else if strings.HasPrefix(rest, "assert") {
					rest = strings.TrimSpace(strings.TrimPrefix(rest, "assert"))
					c, err := mkClause("assert")
					if err != nil {
						return err
					}
					gs = &GhostStmt{Kind: "assert", Clause: c, Text: c.Text}
				} else {
					return errf("%s needs 'assert ...' or 'set L := R'", kw)
				}
				if kw == "atend" {
					if curLoop == nil {
						return errf("atend outside a loop")
					}
					curLoop.AtEnd = append(curLoop.AtEnd, gs)
				} else {
					cur.AtRet = append(cur.AtRet, gs)
				}
			case "endloop":
				curLoop = nil
			default:
				return errf("unknown contract keyword %q", kw)
			}
		}
	}
	return nil
}

// splitTop splits at top-level commas.
func splitTop(s string) []string {
	var parts []string
	d, last := 0, 0
	for i, c := range s {
		switch c {
		case '(', '[':
			d++
		case ')', ']':
			d--
		case ',':
			if d == 0 {
				parts = append(parts, strings.TrimSpace(s[last:i]))
				last = i + 1
			}
		}
	}
	return append(parts, strings.TrimSpace(s[last:]))
}
