package main

import (
	"bytes"
	"context"
	"fmt"
	"os"
	"os/exec"
	"path/filepath"
	"strings"
	"sync"
	"time"
)

type Result struct {
	Ob      *Oblig
	Verdict string // unsat | sat | unknown | timeout | error
	Solver  string
	Ms      int64
	Output  string
	File    string
	Tried   []string
}

func (r *Result) OK() bool {
	if r.Ob.Cover {
		return r.Verdict != "unsat" && r.Verdict != "error"
	}
	return r.Verdict == "unsat"
}

type solverCfg struct {
	name string
	cmd  func(file string, secs int) []string
}

var solvers = []solverCfg{
	{"z3-new", func(f string, s int) []string { return []string{"z3-new", fmt.Sprintf("-T:%d", s), f} }},
	{"cvc5", func(f string, s int) []string { return []string{"cvc5", fmt.Sprintf("--tlimit=%d", s*1000), f} }},
	{"z3", func(f string, s int) []string { return []string{"z3", fmt.Sprintf("-T:%d", s), f} }},
}

// query assembles the full SMT-LIB text of an obligation.
func (g *Gen) preludeText(strMode bool) string {
	var sb strings.Builder
	sb.WriteString(preludeHead)
	if strMode {
		sb.WriteString(preludeBytesStr)
		sb.WriteString("(define-fun cexmode () Bool true)\n")
	} else {
		sb.WriteString(preludeBytesAbs)
		sb.WriteString("(define-fun cexmode () Bool false)\n")
	}
	sb.WriteString(preludeCommon)
	sb.WriteString(preludeStd)
	for _, so := range g.s.dtOrder {
		sb.WriteString(g.s.dts[so] + "\n")
	}
	for _, s := range g.Specs.SMT {
		sb.WriteString(s + "\n")
	}
	for _, n := range sortedKeys(g.Specs.SpecFuns) {
		if sf := g.Specs.SpecFuns[n]; sf.Declare {
			sb.WriteString(fmt.Sprintf("(declare-fun %s (%s) %s)\n", sf.Name, strings.Join(sf.Args, " "), sf.Ret))
		}
	}
	sb.WriteString(g.tagDecls())
	sb.WriteString(g.s.zarrDecls(strMode))
	if strMode {
		for _, v := range g.s.litList {
			sb.WriteString(fmt.Sprintf("(define-fun %s () String %s)\n", g.s.lits[v], smtString(v)))
		}
	} else {
		sb.WriteString(g.s.litDecls())
	}
	return sb.String()
}

func smtString(v string) string {
	var sb strings.Builder
	sb.WriteByte('"')
	for _, c := range []byte(v) {
		switch {
		case c == '"':
			sb.WriteString(`""`)
		case c >= 32 && c < 127 && c != '\\':
			sb.WriteByte(c)
		default:
			sb.WriteString(fmt.Sprintf(`\u{%x}`, c))
		}
	}
	sb.WriteByte('"')
	return sb.String()
}

func obligQuery(pre, body string, o *Oblig, getModel string) string {
	var sb strings.Builder
	sb.WriteString("; obligation: " + o.Name + "\n; clause: " + strings.ReplaceAll(o.Clause, "\n", " ") + "\n")
	if os.Getenv("KVC_NOPRUNE") == "1" {
		sb.WriteString(pre)
	} else {
		sb.WriteString(prunePrelude(pre, body, o.PC, o.Goal))
	}
	sb.WriteString(body)
	sb.WriteString("\n(assert " + o.PC + ")\n")
	if !o.Cover {
		sb.WriteString("(assert (not " + o.Goal + "))\n")
	}
	sb.WriteString("(check-sat)\n")
	sb.WriteString(getModel)
	return sb.String()
}

func runSolver(ctx context.Context, sc solverCfg, file string, secs int) (string, string) {
	args := sc.cmd(file, secs)
	cctx, cancel := context.WithTimeout(ctx, time.Duration(secs+2)*time.Second)
	defer cancel()
	cmd := exec.CommandContext(cctx, args[0], args[1:]...)
	var out bytes.Buffer
	cmd.Stdout = &out
	cmd.Stderr = &out
	t0 := time.Now()
	runErr := cmd.Run()
	o := out.String()
	if o == "" && cctx.Err() == nil && time.Since(t0) < time.Duration(secs)*time.Second/2 {
		// the solver process died (or never started) without an answer and well before its
		// limit: a resource hiccup, not a verdict - say so, so that the caller retries
		_ = runErr
		return "died", fmt.Sprint(runErr)
	}
	if strings.Contains(o, "(error") {
		// z3 4.8.12 prints an error for get-model after unsat: not a script error
		first := strings.TrimSpace(strings.SplitN(strings.TrimSpace(o), "\n", 2)[0])
		if !(first == "unsat" && strings.Contains(o, "model is not available")) {
			return "error", o
		}
	}
	first := strings.TrimSpace(strings.SplitN(strings.TrimSpace(o), "\n", 2)[0])
	switch first {
	case "sat", "unsat", "unknown":
		return first, o
	}
	if strings.Contains(o, "timeout") || cctx.Err() != nil || strings.Contains(o, "interrupted") {
		return "timeout", o
	}
	if o == "" {
		return "timeout", o
	}
	return "error", o
}

// discharge decides one obligation: a quick attempt on z3-new, then a race of all solvers.
func discharge(file string, quickSecs, fullSecs int) (verdict, solver, output string, tried []string) {
	for attempt := 0; ; attempt++ {
		verdict, solver, output, tried = dischargeOnce(file, quickSecs, fullSecs)
		died := false
		for _, t := range tried {
			died = died || strings.HasSuffix(t, ":died")
		}
		if verdict == "sat" || verdict == "unsat" || !died || attempt >= 2 {
			return
		}
		time.Sleep(time.Duration(500*(attempt+1)) * time.Millisecond)
	}
}

func dischargeOnce(file string, quickSecs, fullSecs int) (verdict, solver, output string, tried []string) {
	ctx := context.Background()
	v, o := runSolver(ctx, solvers[0], file, quickSecs)
	tried = append(tried, solvers[0].name+":"+v)
	if v == "sat" || v == "unsat" {
		return v, solvers[0].name, o, tried
	}
	firstErr := ""
	if v == "error" {
		firstErr = o
	}
	type ans struct{ v, s, o string }
	ch := make(chan ans, len(solvers))
	rctx, cancel := context.WithCancel(ctx)
	defer cancel()
	for _, sc := range solvers {
		sc := sc
		go func() {
			v, o := runSolver(rctx, sc, file, fullSecs)
			ch <- ans{v, sc.name, o}
		}()
	}
	best := ans{"timeout", "", ""}
	for range solvers {
		a := <-ch
		tried = append(tried, a.s+":"+a.v)
		if a.v == "sat" || a.v == "unsat" {
			return a.v, a.s, a.o, tried
		}
		if a.v == "unknown" && best.v != "unknown" {
			best = a
		}
		if a.v == "error" && firstErr == "" {
			firstErr = a.o
		}
		if best.s == "" {
			best = a
		}
	}
	if firstErr != "" && best.v != "unknown" {
		return "error", best.s, firstErr, tried
	}
	return best.v, best.s, best.o, tried
}

// solverSlots bounds the number of solver processes across all functions.
var solverSlots = make(chan struct{}, 16)

// solveAll discharges the obligations in parallel.
func solveAll(g *Gen, obs []*Oblig, dir string, workers, quickSecs, fullSecs int) []*Result {
	os.MkdirAll(dir, 0o755)
	pre := g.preludeText(false)
	// per-obligation script slices (computed sequentially: the definition index is shared)
	bodies := make([]string, len(obs))
	whole := ""
	for k, o := range obs {
		if len(o.Ranges) == 0 || os.Getenv("KVC_NOSLICE") != "" {
			if whole == "" {
				whole = g.s.body()
			}
			bodies[k] = whole
		} else {
			bodies[k] = g.s.bodyFor(o.Ranges, o.PC, o.Goal)
		}
	}
	res := make([]*Result, len(obs))
	var wg sync.WaitGroup
	sem := make(chan struct{}, workers)
	used := map[string]int{}
	files := make([]string, len(obs))
	for k, o := range obs {
		// one file per obligation, also when two obligations carry the same name
		n := sanitize(o.Name)
		used[n]++
		if used[n] > 1 {
			n = fmt.Sprintf("%s.dup%d", n, used[n])
		}
		files[k] = filepath.Join(dir, n+".smt2")
	}
	for k, o := range obs {
		k, o := k, o
		wg.Add(1)
		sem <- struct{}{}
		go func() {
			defer wg.Done()
			defer func() { <-sem }()
			solverSlots <- struct{}{}
			defer func() { <-solverSlots }()
			file := files[k]
			os.WriteFile(file, []byte(obligQuery(pre, bodies[k], o, "")), 0o644)
			t0 := time.Now()
			var v, s, out string
			var tried []string
			if o.Cover {
				// vacuity guard: only a refutation (unsat) is a failure; a short attempt suffices
				v, out = runSolver(context.Background(), solvers[0], file, 2)
				s, tried = solvers[0].name, []string{solvers[0].name + ":" + v}
			} else {
				v, s, out, tried = discharge(file, quickSecs, fullSecs)
			}
			res[k] = &Result{Ob: o, Verdict: v, Solver: s, Ms: time.Since(t0).Milliseconds(), Output: out, File: file, Tried: tried}
		}()
	}
	wg.Wait()
	return res
}
