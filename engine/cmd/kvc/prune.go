package main

import (
	"strings"
	"sync"
)

// Prelude pruning: a query carries only the prelude declarations and axioms that are connected to
// the symbols it mentions. The prelude grows with every contract file (spec functions, type tags,
// string literals), and solvers are sensitive to declarations that cannot take part in the proof:
// adding unrelated contracts made lexer obligations time out. Pruning keeps each function's
// queries a function of its own contracts and code. Soundness: dropping declarations and axioms
// only weakens the hypotheses of a query.

type preForm struct {
	text  string
	kind  int // 0 always kept, 1 declaration / definition of name, 2 assertion
	name  string
	toks  []string
	decls []string // for kind 2: the prelude-declared symbols it mentions
}

var preCache sync.Map // prelude text -> []*preForm

func smtTokens(s string) []string {
	var out []string
	i := 0
	for i < len(s) {
		c := s[i]
		switch {
		case c == ';':
			for i < len(s) && s[i] != '\n' {
				i++
			}
		case c == '"':
			i++
			for i < len(s) {
				if s[i] == '"' {
					if i+1 < len(s) && s[i+1] == '"' {
						i += 2
						continue
					}
					break
				}
				i++
			}
			i++
		case c == '|':
			j := i + 1
			for j < len(s) && s[j] != '|' {
				j++
			}
			out = append(out, s[i:min(j+1, len(s))])
			i = j + 1
		case c == '(' || c == ')' || c == ' ' || c == '\n' || c == '\t' || c == '\r':
			i++
		default:
			j := i
			for j < len(s) && !strings.ContainsRune("() \n\t\r;\"|", rune(s[j])) {
				j++
			}
			out = append(out, s[i:j])
			i = j
		}
	}
	return out
}

func splitForms(pre string) []string {
	var out []string
	depth, start := 0, -1
	i := 0
	for i < len(pre) {
		c := pre[i]
		switch c {
		case ';':
			for i < len(pre) && pre[i] != '\n' {
				i++
			}
			continue
		case '"':
			i++
			for i < len(pre) {
				if pre[i] == '"' {
					if i+1 < len(pre) && pre[i+1] == '"' {
						i += 2
						continue
					}
					break
				}
				i++
			}
		case '|':
			i++
			for i < len(pre) && pre[i] != '|' {
				i++
			}
		case '(':
			if depth == 0 {
				start = i
			}
			depth++
		case ')':
			depth--
			if depth == 0 && start >= 0 {
				out = append(out, pre[start:i+1])
				start = -1
			}
		}
		i++
	}
	return out
}

func parsePrelude(pre string) []*preForm {
	if v, ok := preCache.Load(pre); ok {
		return v.([]*preForm)
	}
	var forms []*preForm
	declared := map[string]bool{}
	for _, t := range splitForms(pre) {
		toks := smtTokens(t)
		f := &preForm{text: t, toks: toks}
		if len(toks) >= 2 {
			switch toks[0] {
			case "declare-fun", "declare-const", "define-fun", "define-fun-rec":
				f.kind, f.name = 1, toks[1]
				declared[f.name] = true
			case "assert":
				f.kind = 2
			}
		}
		forms = append(forms, f)
	}
	for _, f := range forms {
		if f.kind == 2 {
			seen := map[string]bool{}
			for _, t := range f.toks {
				if declared[t] && !seen[t] {
					seen[t] = true
					f.decls = append(f.decls, t)
				}
			}
		}
	}
	preCache.Store(pre, forms)
	return forms
}

func prunePrelude(pre string, texts ...string) string {
	forms := parsePrelude(pre)
	needed := map[string]bool{}
	for _, t := range texts {
		for _, k := range smtTokens(t) {
			needed[k] = true
		}
	}
	keep := make([]bool, len(forms))
	for changed := true; changed; {
		changed = false
		for i, f := range forms {
			if keep[i] {
				continue
			}
			switch f.kind {
			case 0:
				keep[i] = true
			case 1:
				if needed[f.name] {
					keep[i] = true
				}
			case 2:
				if len(f.decls) == 0 {
					keep[i] = true
				}
				for _, d := range f.decls {
					if needed[d] {
						keep[i] = true
						break
					}
				}
			}
			if keep[i] && f.kind != 0 {
				changed = true
				for _, t := range f.toks {
					needed[t] = true
				}
			}
		}
	}
	var sb strings.Builder
	for i, f := range forms {
		if keep[i] {
			sb.WriteString(f.text)
			sb.WriteByte('\n')
		}
	}
	return sb.String()
}
