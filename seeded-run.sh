#!/bin/bash
# usage: seeded-run.sh <id> <Cxx>...  — applies a stored seeded change to /repo, runs the checks, reverts
id=$1; shift
cd /repo && git apply /verif/seeded/$id/patch.diff || patch -p1 -s < /verif/seeded/$id/patch.diff || { echo "cannot apply"; exit 2; }
for p in "$@"; do /verif/bin/kvc check $p 2>&1 | grep -E "VIOLATION|KNOWN|^C[0-9]+:|ENGINE" ; done
cd /repo && git checkout -- . && git status --short | head -3
